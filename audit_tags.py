#!/usr/bin/env python3
"""Audit: every property tag used in a contract file of /repo must belong to a package that props.json lists for that
property - otherwise the clause is loaded by no check (the hole described in DESIGN 9.2). Exit 1 and print the misses."""
import glob, json, os, re, sys

props = json.load(open(os.path.join(os.path.dirname(os.path.abspath(__file__)), 'props.json')))
repo = sys.argv[1] if len(sys.argv) > 1 else '/repo'
miss = {}
for f in glob.glob(repo + '/**/zz_contracts_verif.go', recursive=True):
    pkg = './' + os.path.relpath(os.path.dirname(f), repo)
    for ln in open(f):
        if not ln.startswith('//@'):
            continue
        for m in re.finditer(r'\[((?:C\d\d(?::\w+)?,?\s*)+)\]', ln):
            for t in m.group(1).split(','):
                t = t.strip().split(':')[0]
                if t in props and pkg not in props[t]['packages']:
                    miss[(t, pkg)] = miss.get((t, pkg), 0) + 1
for (t, pkg), n in sorted(miss.items()):
    print(f'AUDIT-FAIL: {n} clause(s) tagged {t} in {pkg}, which props.json does not list for {t}')
sys.exit(1 if miss else 0)
