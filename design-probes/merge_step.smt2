; one iteration of mergeAdjacentRanges loop: invariant preservation
(declare-fun rF (Int) Int) (declare-fun rT (Int) Int) (declare-const n Int)
(declare-fun qF (Int) Int) (declare-fun qT (Int) Int) (declare-const m Int) ; result so far
(declare-const cF Int) (declare-const cT Int) (declare-const i Int)
(define-fun covIn ((k Int) (s Int)) Bool (exists ((j Int)) (and (<= 0 j) (< j k) (<= (rF j) s) (<= s (rT j)))))
(define-fun covRes ((s Int)) Bool (exists ((j Int)) (and (<= 0 j) (< j m) (<= (qF j) s) (<= s (qT j)))))
; pre: sorted by From, each From<=To
(assert (forall ((a Int) (b Int)) (=> (and (<= 0 a) (<= a b) (< b n)) (<= (rF a) (rF b)))))
(assert (forall ((a Int)) (=> (and (<= 0 a) (< a n)) (<= (rF a) (rT a)))))
(assert (and (<= 1 i) (< i n) (<= 0 m)))
; invariant
(assert (<= cF cT))
(assert (forall ((s Int)) (= (or (covRes s) (and (<= cF s) (<= s cT))) (covIn i s))))
(assert (forall ((j Int)) (=> (and (<= 0 j) (< j m)) (and (<= (qF j) (qT j)) (< (+ (qT j) 1) cF)))))
(assert (forall ((a Int) (b Int)) (=> (and (<= 0 a) (< a b) (< b m)) (< (+ (qT a) 1) (qF b)))))
(assert (<= cF (rF i)))
(assert (exists ((k Int)) (and (<= 0 k) (< k i) (= cF (rF k)))))
; body
(declare-const cF2 Int) (declare-const cT2 Int) (declare-const m2 Int)
(declare-fun qF2 (Int) Int) (declare-fun qT2 (Int) Int)
(assert (ite (<= (rF i) (+ cT 1))
  (and (= cF2 cF) (= cT2 (ite (>= cT (rT i)) cT (rT i))) (= m2 m)
       (forall ((j Int)) (and (= (qF2 j) (qF j)) (= (qT2 j) (qT j)))))
  (and (= cF2 (rF i)) (= cT2 (rT i)) (= m2 (+ m 1))
       (forall ((j Int)) (and (= (qF2 j) (ite (= j m) cF (qF j))) (= (qT2 j) (ite (= j m) cT (qT j))))))))
(define-fun covRes2 ((s Int)) Bool (exists ((j Int)) (and (<= 0 j) (< j m2) (<= (qF2 j) s) (<= s (qT2 j)))))
(assert (not (and
  (<= cF2 cT2)
  (forall ((s Int)) (= (or (covRes2 s) (and (<= cF2 s) (<= s cT2))) (covIn (+ i 1) s)))
  (forall ((j Int)) (=> (and (<= 0 j) (< j m2)) (and (<= (qF2 j) (qT2 j)) (< (+ (qT2 j) 1) cF2))))
  (forall ((a Int) (b Int)) (=> (and (<= 0 a) (< a b) (< b m2)) (< (+ (qT2 a) 1) (qF2 b))))
)))
(check-sat)
