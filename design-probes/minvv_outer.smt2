; Preservation of the outer-loop invariant of MinVersionVector (one iteration, inner loop summarised by its postcondition)
(declare-sort Key 0)
(declare-sort Ref 0)
(declare-fun has0 (Ref Key) Bool)   ; heap: map has
(declare-fun val0 (Ref Key) Int)
(declare-fun vecs (Int) Ref)        ; vectors[j]
(declare-const n Int)
(declare-const minRef Ref)
(declare-fun S (Key) Bool)          ; visited keys of keySet
(declare-fun keySet (Key) Bool)
(define-fun vz ((r Ref) (k Key)) Int (ite (has0 r k) (val0 r k) 0))
(assert (>= n 1))
; minRef is fresh: distinct from all vectors
(assert (forall ((j Int)) (=> (and (<= 0 j) (< j n)) (not (= (vecs j) minRef)))))
; nonneg values
(assert (forall ((j Int) (k Key)) (=> (and (<= 0 j) (< j n) (has0 (vecs j) k)) (>= (val0 (vecs j) k) 0))))
; invariant at head
(assert (forall ((k Key)) (= (has0 minRef k) (S k))))
(assert (forall ((k Key)) (=> (S k) (keySet k))))
(assert (forall ((k Key) (j Int)) (=> (and (S k) (<= 0 j) (< j n)) (<= (val0 minRef k) (vz (vecs j) k)))))
; pick next key
(declare-const k0 Key)
(assert (keySet k0))
(assert (not (S k0)))
; inner loop postcondition: mv <= each (or 0 if some absent)
(declare-const mv Int)
(assert (forall ((j Int)) (=> (and (<= 0 j) (< j n)) (<= mv (vz (vecs j) k0)))))
; state after: minRef[k0] = mv ; S' = S + k0
(define-fun has1 ((r Ref) (k Key)) Bool (ite (and (= r minRef) (= k k0)) true (has0 r k)))
(define-fun val1 ((r Ref) (k Key)) Int (ite (and (= r minRef) (= k k0)) mv (val0 r k)))
(define-fun S1 ((k Key)) Bool (or (S k) (= k k0)))
(define-fun vz1 ((r Ref) (k Key)) Int (ite (has1 r k) (val1 r k) 0))
; negated invariant after
(assert (not (and
  (forall ((k Key)) (= (has1 minRef k) (S1 k)))
  (forall ((k Key)) (=> (S1 k) (keySet k)))
  (forall ((k Key) (j Int)) (=> (and (S1 k) (<= 0 j) (< j n)) (<= (val1 minRef k) (vz1 (vecs j) k)))))))
(check-sat)
