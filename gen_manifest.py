#!/usr/bin/env python3
# Generates /verif/MANIFEST.json from /verif/manifest.src.json (per-property texts) so that the commands stay uniform.
import json, subprocess
hooks = subprocess.run(["git", "-C", "/repo", "log", "--format=%H %s"], capture_output=True, text=True).stdout.splitlines()
hook_commits = [l.split()[0] for l in hooks if " ".join(l.split()[1:]).startswith("verif hook")]
src = json.load(open('/verif/manifest.src.json'))
checks = []
for pid in sorted(src['claimed']):
    c = src['claimed'][pid]
    checks.append({
        "property_id": pid,
        "quick_cmd": f"/verif/check {pid} quick",
        "thorough_cmd": f"/verif/check {pid} thorough",
        "evidence_file": f"/verif/evidence/{pid}.json",
        "replay_cmd_template": "cat {path}",
        "engine": "govc",
        "level_claimed": {"category": "proof", "text": c["text"], "design_ref": c.get("design_ref", "DESIGN.md §4 " + pid)},
        "level_note": c["note"],
        "technique": c.get("technique", "contract-based deductive verification: weakest-precondition style symbolic execution of go/ssa against //@ contracts, obligations discharged by z3/cvc5"),
    })
ids = [json.loads(l)["id"] for l in open('/verif/properties.jsonl') if l.strip()]
for pid in ids:
    if pid not in src['claimed'] and pid not in src['not_applicable']:
        src['not_applicable'][pid] = "not claimed yet: its contracts have not been written/discharged in this session (planned in DESIGN.md §4); no check is registered until every obligation in its cone discharges on the unchanged tree"
m = {
    "version": 1,
    "setup_cmd": "sh /verif/setup.sh",
    "hooks": {
        "guard": "verif",
        "enable": "go build tag 'verif' (go/packages BuildFlags -tags=verif); it only adds comment-only files zz_contracts_verif.go holding the //@ contracts — no executable code",
        "baseline_off_cmd": "cd /repo && GOFLAGS=-mod=mod GOPROXY=off go test -vet=off -count=1 -timeout 25m ./...",
        "source_commits": hook_commits,
        "add_only": True,
    },
    "engines": [{"name": "govc", "path": "/verif/govc", "serves_properties": sorted(src['claimed']),
                 "kind_free_text": "home-built verification-condition generator for Go: path-wise symbolic execution of go/ssa (NaiveForm) of the real functions in /repo against Gobra-style //@ contracts kept in comment-only files under build tag verif; loops cut at invariants, calls replaced by contracts (modular), frames from modifies clauses, ghost state for effect logs and lock levels; obligations discharged by z3-new 5.1.0, z3 4.8.12 and cvc5 1.0 (portfolio)"}],
    "checks": checks,
    "not_applicable": [{"property_id": k, "reason": v} for k, v in sorted(src['not_applicable'].items())],
    "notes": src.get("notes", ""),
}
json.dump(m, open('/verif/MANIFEST.json', 'w'), indent=1)
print("wrote MANIFEST.json with", len(checks), "checks,", len(m["not_applicable"]), "not applicable")
