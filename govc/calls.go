// calls.go: call handling — contracts, inlining, external models, unknown calls; modifies/frames.
package main

import (
	"os"
	"fmt"
	"go/token"
	"go/types"
	"strings"

	"golang.org/x/tools/go/ssa"
)

// ExtModel: Go-coded assumed contract of an external function (listed as an assumption in the evidence).
// It may fork: it must call rest(state) for every way the call can return, after setting the result via setRes.
type ExtModel func(e *Exec, s *State, args []Val, cc *ssa.CallCommon, setRes func(*State, Val), rest func(*State))

var extModels = map[string]ExtModel{}
var extModelDoc = map[string]string{}

// packages whose functions are side-effect free as far as repo objects are concerned (result arbitrary, heap unchanged)
var purePkgs = []string{"fmt", "strings", "strconv", "errors", "time", "math", "unicode", "unicode/utf8", "unicode/utf16", "context", "bytes", "sort", "slices", "maps",
	"encoding/hex", "encoding/base64", "hash/maphash", "github.com/hashicorp/golang-lru/v2", "go.mongodb.org/mongo-driver", "go.mongodb.org/mongo-driver/v2", "math/rand", "math/bits", "reflect", "os", "regexp", "sync/atomic", "path",
	"github.com/yorkie-team/yorkie/server/logging", "github.com/yorkie-team/yorkie/pkg/errors", "go.uber.org/zap", "github.com/yorkie-team/yorkie/server/profiling/prometheus",
	"github.com/yorkie-team/yorkie/server/profiling", "google.golang.org/protobuf/types/known/timestamppb", "github.com/rs/xid",
	"connectrpc.com/connect", "github.com/yorkie-team/yorkie/api/types/events"}

// pure external functions that are also deterministic (modelled as uninterpreted functions of their arguments)
var deterministicPure = map[string]bool{"hash/maphash.Comparable": true, "(time.Time).IsZero": true, "(time.Time).Equal": true, "(time.Time).Before": true, "(time.Time).After": true,
	"strings.HasPrefix": true, "strings.Contains": true, "strings.HasSuffix": true, "strings.TrimSpace": true, "strings.EqualFold": true, "strings.ToLower": true, "strings.ToUpper": true}

func isPurePkg(path string) bool {
	for _, p := range purePkgs {
		if path == p || strings.HasPrefix(path, p+"/") {
			return true
		}
	}
	return false
}

func funcPkgPath(f *ssa.Function) string {
	if f.Pkg != nil {
		return f.Pkg.Pkg.Path()
	}
	if f.Object() != nil && f.Object().Pkg() != nil {
		return f.Object().Pkg().Path()
	}
	if o := f.Origin(); o != nil && o != f {
		return funcPkgPath(o)
	}
	if p := f.Parent(); p != nil {
		return funcPkgPath(p)
	}
	return ""
}

func (e *Exec) symbolicResult(s *State, t types.Type, hint string) Val {
	switch tt := t.(type) {
	case *types.Tuple:
		if tt.Len() == 0 {
			return nil
		}
		if tt.Len() == 1 {
			return e.symbolic(s, tt.At(0).Type(), hint)
		}
		var es []Val
		for i := 0; i < tt.Len(); i++ {
			es = append(es, e.symbolic(s, tt.At(i).Type(), fmt.Sprintf("%s%d", hint, i)))
		}
		return Tuple{E: es}
	}
	return e.symbolic(s, t, hint)
}

func resultType(sig *types.Signature) types.Type {
	if sig.Results().Len() == 1 {
		return sig.Results().At(0).Type()
	}
	return sig.Results()
}

func matchAny(name string, pats []string) bool {
	for _, p := range pats {
		if p != "" && strings.Contains(name, p) {
			return true
		}
	}
	return false
}

// call executes a call instruction. Returns true if it took over control flow (rest was invoked for each outcome).
func (e *Exec) call(s *State, res ssa.Value, cc *ssa.CallCommon, site ssa.Instruction, rest func(*State)) bool {
	setRes := func(s2 *State, v Val) {
		if res != nil && v != nil {
			s2.regs[res] = v
		}
	}
	var args []Val
	if cc.IsInvoke() {
		args = append(args, e.val(s, cc.Value))
	}
	for _, a := range cc.Args {
		args = append(args, e.val(s, a))
	}
	return e.callVal(s, cc, args, setRes, rest)
}

// the name a call is logged under (ncalls / icalls / lastresult / callseq match on substrings of it)
func callLogName(cc *ssa.CallCommon) string {
	if cc.IsInvoke() {
		return cc.Method.FullName()
	} else if sc := cc.StaticCallee(); sc != nil {
		return sc.String()
	} else if u, ok := cc.Value.(*ssa.UnOp); ok {
		// a call through a function-typed local or parameter: logged under the variable's name
		if al, ok := u.X.(*ssa.Alloc); ok && al.Comment != "" {
			return "dyncall " + al.Comment
		}
	} else if p, ok := cc.Value.(*ssa.Parameter); ok {
		return "dyncall " + p.Name()
	}
	return ""
}

func (e *Exec) callVal(s *State, cc *ssa.CallCommon, args []Val, setRes func(*State, Val), rest func(*State)) bool {
	if len(e.frames) == 0 {
		// call log of the function under verification (its own call sites only)
		if nm := callLogName(cc); nm != "" {
			s.calls = append(s.calls, nm)
			var argT []types.Type
			csig := cc.Signature()
			if cc.IsInvoke() {
				argT = append(argT, cc.Value.Type())
			} else if csig.Recv() != nil {
				argT = append(argT, csig.Recv().Type())
			}
			for i := 0; i < csig.Params().Len(); i++ {
				argT = append(argT, csig.Params().At(i).Type())
			}
			if len(argT) != len(args) {
				argT = nil
			}
			s.callRes = append(s.callRes, callResult{Args: append([]Val{}, args...), ArgT: argT})
			idx := len(s.calls) - 1
			inner := setRes
			lrt := resultType(csig)
			setRes = func(st *State, v Val) {
				if idx < len(st.callRes) && st.calls[idx] == nm {
					cr := st.callRes[idx]
					cr.V, cr.T = v, lrt
					st.callRes[idx] = cr
				}
				inner(st, v)
			}
		}
	}
	if len(e.frames) == 0 && e.con != nil && len(e.con.PanicsAt) > 0 && len(e.unwinding) == 0 {
		if nm := callLogName(cc); nm != "" && matchAny(nm, e.con.PanicsAt) {
			// the extra path on which this call panics instead of returning (what the callee did to the heap before it
			// panicked is unknown: everything it could reach is havocked like for an unknown call)
			ps := s.clone()
			for _, a := range args {
				e.escape(ps, a)
			}
			e.havocAll(ps)
			ps.panicking = true
			ps.trace = append(ps.trace, "panic@"+nm)
			e.unwind(ps)
		}
	}
	sig := cc.Signature()
	rt := resultType(sig)
	prevSig := e.curCallSig
	e.curCallSig = sig
	defer func() { e.curCallSig = prevSig }()
	var mkUnknown func(s *State) func(string, bool) bool
	mkUnknown = func(s *State) func(string, bool) bool {
		return func(why string, havoc bool) bool {
		for _, a := range args {
			e.escape(s, a)
		}
		if !havoc && deterministicPure[why] {
			// a pure function of its (scalar) arguments: an uninterpreted function, so equal arguments give equal results
			var terms, sorts []string
			okAll := true
			off := 0
			if sig.Recv() != nil {
				off = 1
			}
			for i, a := range args {
				var t types.Type
				if i < off {
					t = sig.Recv().Type()
				} else if i-off < sig.Params().Len() {
					t = sig.Params().At(i - off).Type()
				}
				if t == nil {
					okAll = false
					break
				}
				ts, ss := e.leaves(t, a)
				terms = append(terms, ts...)
				sorts = append(sorts, ss...)
			}
			if okAll && sig.Results().Len() == 1 {
				rs := sortOf(sig.Results().At(0).Type())
				if rs == "Int" || rs == "Bool" || rs == "Str" {
					e.note("pure-deterministic(assumed)", why)
					f := "|ext." + sanitize(why) + "|"
					e.declSort(rs)
					e.decl(fmt.Sprintf("(declare-fun %s (%s) %s)", f, strings.Join(sorts, " "), rs))
					if why == "(time.Time).IsZero" {
						e.timeZeroAxiom(sig.Recv().Type())
					}
					r := S("%s", app(f, terms...))
					if bt, ok := sig.Results().At(0).Type().Underlying().(*types.Basic); ok {
						if lo, hi, ok := intRange(bt); ok {
							s.assume("(and (<= %s %s) (<= %s %s))", lo, r.T, r.T, hi)
						}
					}
					setRes(s, r)
					return false
				}
			}
		}
		if havoc {
			e.note("unknown(havoc-all)", why)
			// address-taken locals handed to the callee may be written
			for _, a := range args {
				if la, ok := a.(LocalAddr); ok && len(la.Path) == 0 {
					s.cells[la.A] = e.symbolic(s, la.A.Type().(*types.Pointer).Elem(), "hv_"+la.A.Comment)
				}
			}
			e.havocAll(s)
		} else {
			e.note("pure(assumed)", why)
		}
		res := e.symbolicResult(s, rt, "ret")
		if why == "time.Now" {
			// the current time is not the zero time (model assumption)
			e.note("model(assumed)", "time.Now")
			terms, sorts := e.leaves(rt, res)
			z := "|ext." + sanitize("(time.Time).IsZero") + "|"
			e.decl(fmt.Sprintf("(declare-fun %s (%s) Bool)", z, strings.Join(sorts, " ")))
			s.assume("(not %s)", app(z, terms...))
		}
		// constructors of the repository's status errors (pkg/errors) and connect.NewError never return nil
		if strings.Contains(why, "yorkie/pkg/errors") || strings.HasSuffix(why, "connectrpc.com/connect.NewError") {
			if ag, ok := res.(*Agg); ok && isErrorIface(sig.Results().At(0).Type()) {
				s.assume("(and (not (= %s 0)) (not (= %s null)))", ag.F[0].(Scalar).T, ag.F[1].(Scalar).T)
			} else if sc, ok := res.(Scalar); ok && sig.Results().Len() == 1 && sortOf(sig.Results().At(0).Type()) == "Ref" {
				s.assume("(not (= %s null))", sc.T)
			}
		}
		setRes(s, res)
		return false
			}
	}
	unknown := mkUnknown(s)
	// ---- interface method call ----
	if cc.IsInvoke() {
		name := "invoke " + cc.Method.FullName()
		e.assertAts(s, cc.Method.FullName(), args, cc)
		if m, ok := extModels[name]; ok {
			e.note("model(assumed)", name)
			for _, a := range args {
				e.escape(s, a)
			}
			m(e, s, args, cc, setRes, rest)
			return true
		}
		if con, ok := e.w.contracts[name]; ok {
			e.applyContract(s, con, args, setRes)
			return false
		}
		if cl := e.w.closedFor(cc.Value.Type()); cl != nil {
			// closed interface: one arm per implementing type (the dynamic type of a value is decided once per path)
			iv := args[0].(*Agg)
			tag, ref := iv.F[0].(Scalar).T, iv.F[1].(Scalar).T
			e.safety("nil", s, fmt.Sprintf("(not (= %s 0))", tag))
			for _, T := range cl.Types {
				id := typeID(T)
				e.w.typeNames[id] = T
				if known, ok := s.tagOf[tag]; ok && known != id {
					continue
				}
				sel := e.w.prog.MethodSets.MethodSet(T).Lookup(cc.Method.Pkg(), cc.Method.Name())
				if sel == nil {
					e.abort("closed interface %s: %s has no method %s", cl.Name, T, cc.Method.Name())
				}
				fn := e.w.prog.MethodValue(sel)
				if fn == nil {
					e.abort("closed interface %s: no SSA for %s.%s", cl.Name, T, cc.Method.Name())
				}
				s2 := s.clone()
				s2.assume("(= %s %d)", tag, id)
				s2.tagOf[tag] = id
				args2 := append([]Val{e.unbox(s2, T, ref)}, args[1:]...)
				e.note("dispatch(closed interface)", name)
				if !e.callResolved(s2, cc, fn, nil, args2, setRes, rest, mkUnknown(s2)) {
					rest(s2)
				}
			}
			return true
		}
		if cc.Method.Pkg() != nil && isPurePkg(cc.Method.Pkg().Path()) || cc.Method.Name() == "Error" && cc.Method.Pkg() == nil {
			return unknown(name, false)
		}
		if e.con != nil && e.con.AbstractCalls {
			return unknown(name, true)
		}
		e.abort("needs contract on interface method: %s (at %s)", name, e.posStr(token.NoPos))
	}
	// ---- builtins ----
	if b, ok := cc.Value.(*ssa.Builtin); ok {
		return e.builtin(s, b, cc, args, setRes, rest)
	}
	// ---- static callee ----
	callee := cc.StaticCallee()
	var closure *ClosureV
	if callee == nil {
		switch fv := e.val(s, cc.Value).(type) {
		case ClosureV:
			callee = fv.Fn
			closure = &fv
		case FuncV:
			callee = fv.Fn
		case Scalar:
			if cv, ok := e.closures[fv.T]; ok {
				callee = cv.Fn
				closure = &cv
			} else if f, ok := e.funcvals[fv.T]; ok {
				callee = f.Fn
			}
		}
	} else if mc, ok := cc.Value.(*ssa.MakeClosure); ok {
		cv := e.val(s, mc).(ClosureV)
		closure = &cv
	}
	if callee == nil {
		// function value parameter with a callback contract?
		if p, ok := cc.Value.(*ssa.UnOp); ok {
			if al, ok := p.X.(*ssa.Alloc); ok && e.con != nil {
				if cb := e.con.Callbacks[al.Comment]; cb != nil {
					e.applyCallback(s, cb, sig, args, setRes)
					return false
				}
			}
		}
		if p, ok := cc.Value.(*ssa.Parameter); ok && e.con != nil {
			if cb := e.con.Callbacks[p.Name()]; cb != nil {
				e.applyCallback(s, cb, sig, args, setRes)
				return false
			}
		}
		if e.con != nil && e.con.AbstractCalls {
			return unknown("dynamic call", true)
		}
		e.abort("dynamic call without callback contract: %s (at %s)", cc.Value, e.posStr(token.NoPos))
	}
	return e.callResolved(s, cc, callee, closure, args, setRes, rest, unknown)
}

// callResolved: the call of a known function (static callee, closure, or one arm of an interface dispatch)
func (e *Exec) callResolved(s *State, cc *ssa.CallCommon, callee *ssa.Function, closure *ClosureV, args []Val, setRes func(*State, Val), rest func(*State), unknown func(string, bool) bool) bool {
	name := callee.String()
	if o := callee.Origin(); o != nil {
		name = o.String()
	}
	e.assertAts(s, name, args, cc)
	if m, ok := extModels[name]; ok {
		e.note("model(assumed)", name)
		for _, a := range args {
			e.escape(s, a)
		}
		m(e, s, args, cc, setRes, rest)
		return true
	}
	forceInline := e.con != nil && matchAny(name, e.con.InlineCallees)
	forceAbstract := e.con != nil && matchAny(name, e.con.AbstractCallees)
	if forceAbstract {
		return unknown(name, true)
	}
	if con, ok := e.w.contracts[name]; ok && !forceInline && closure == nil && !(con.Inline && callee.Blocks != nil) {
		e.applyContract(s, con, args, setRes)
		return false
	}
	pkgPath := funcPkgPath(callee)
	if closure == nil && callee.Blocks == nil || !strings.HasPrefix(pkgPath, "github.com/yorkie-team/yorkie") && closure == nil {
		if isPurePkg(pkgPath) {
			return unknown(name, false)
		}
		e.note("external(havoc-reachable)", name)
		return unknown(name, true)
	}
	if isPurePkg(pkgPath) && !forceInline {
		return unknown(name, false)
	}
	// ---- inline ----
	autoInline := e.inlinable(callee)
	if autoInline && e.con != nil && e.con.AbstractCalls && len(e.frames) == 0 && funcPkgPath(callee) != funcPkgPath(e.fn) {
		// in a function verified with abstracted callees, bodies of other packages are not pulled in (their safety
		// obligations would need those packages' representation invariants); same-package helpers still are
		autoInline = false
	}
	if autoInline && e.con != nil && e.con.AbstractAll {
		autoInline = false // abstract-all: only the callees named by call-inline are read
	}
	if closure != nil || forceInline || autoInline {
		if len(e.frames) >= 6 {
			if e.con != nil && e.con.AbstractCalls {
				return unknown(name, true)
			}
			e.abort("inline depth exceeded at %s", name)
		}
		e.note("inlined", name)
		if os.Getenv("GOVC_TRACE") != "" {
			fmt.Fprintln(os.Stderr, "inline", name)
		}
		if closure != nil {
			for i, fv := range callee.FreeVars {
				s.regs[fv] = closure.Bindings[i]
			}
		}
		if len(callee.Params) != len(args) {
			e.abort("arity mismatch inlining %s", name)
		}
		for i, p := range callee.Params {
			s.regs[p] = args[i]
		}
		savedPrev := s.prev
		e.frames = append(e.frames, frame{fn: callee, defers: len(s.defers), ret: func(s2 *State, res []Val) {
			s2.prev = savedPrev
			if len(res) == 1 {
				setRes(s2, res[0])
			} else if len(res) > 1 {
				setRes(s2, Tuple{E: res})
			}
			rest(s2)
		}})
		e.registerLoops(callee)
		e.blockFrom(s, callee.Blocks[0], 0, len(e.frames)*20)
		e.frames = e.frames[:len(e.frames)-1]
		return true
	}
	if e.con != nil && e.con.AbstractCalls {
		return unknown(name, true)
	}
	e.abort("needs contract: %s (called at %s)", name, e.posStr(token.NoPos))
	return false
}

// small, loop-free, non-recursive repo functions are inlined
func (e *Exec) inlinable(f *ssa.Function) bool {
	if f.Blocks == nil || len(f.Blocks) > 14 {
		return false
	}
	for _, fr := range e.frames {
		if fr.fn == f {
			return false
		}
	}
	if f == e.fn {
		return false
	}
	n := 0
	for _, b := range f.Blocks {
		for _, p := range b.Preds {
			if b.Dominates(p) {
				return false // has a loop
			}
		}
		n += len(b.Instrs)
		for _, ins := range b.Instrs {
			switch ins.(type) {
			case *ssa.Go, *ssa.Select, *ssa.Send, *ssa.MakeChan:
				return false
			}
		}
	}
	return n <= 160
}

func (e *Exec) callDeferred(s *State, d deferred, rest func(*State)) {
	cc := &d.call.Call
	var args []Val
	if cc.IsInvoke() {
		args = append(args, d.fn)
	}
	args = append(args, d.args...)
	// closures deferred as values
	if cv, ok := d.fn.(ClosureV); ok && !cc.IsInvoke() {
		callee := cv.Fn
		if callsRecover(callee) {
			// a deferred recover(): on the normal path it is a no-op returning nil
		}
		for i, fv := range callee.FreeVars {
			s.regs[fv] = cv.Bindings[i]
		}
		for i, p := range callee.Params {
			s.regs[p] = args[i]
		}
		savedPrev := s.prev
		e.frames = append(e.frames, frame{fn: callee, defers: len(s.defers), ret: func(s2 *State, res []Val) {
			s2.prev = savedPrev
			rest(s2)
		}})
		e.registerLoops(callee)
		e.blockFrom(s, callee.Blocks[0], 0, len(e.frames)*20)
		e.frames = e.frames[:len(e.frames)-1]
		return
	}
	if !e.callVal(s, cc, args, func(*State, Val) {}, rest) {
		rest(s)
	}
}

func callsRecover(f *ssa.Function) bool {
	for _, b := range f.Blocks {
		for _, ins := range b.Instrs {
			if c, ok := ins.(*ssa.Call); ok {
				if bi, ok := c.Call.Value.(*ssa.Builtin); ok && bi.Name() == "recover" {
					return true
				}
			}
		}
	}
	return false
}

func (e *Exec) builtin(s *State, b *ssa.Builtin, cc *ssa.CallCommon, args []Val, setRes func(*State, Val), rest func(*State)) bool {
	switch b.Name() {
	case "max", "min":
		if sortOf(cc.Args[0].Type()) != "Int" {
			setRes(s, e.symbolic(s, cc.Args[0].Type(), "minmax"))
			return false
		}
		r := args[0].(Scalar).T
		cmp := ">="
		if b.Name() == "min" {
			cmp = "<="
		}
		for _, a := range args[1:] {
			y := a.(Scalar).T
			r = fmt.Sprintf("(ite (%s %s %s) %s %s)", cmp, r, y, r, y)
		}
		setRes(s, S("%s", r))
		return false
	case "ssa:deferstack":
		setRes(s, S("null"))
		return false
	case "ssa:wrapnilchk":
		setRes(s, args[0])
		return false
	case "recover":
		if s.panicking && len(e.unwinding) > 0 {
			// stops the panic and yields its (non-nil, otherwise unknown) value
			s.panicking = false
			pv := e.symbolic(s, types.NewInterfaceType(nil, nil), "recovered").(*Agg)
			s.assume("(not (= %s 0))", pv.F[0].(Scalar).T)
			setRes(s, pv)
			return false
		}
		setRes(s, zero(types.NewInterfaceType(nil, nil)))
		return false
	case "print", "println":
		return false
	case "len":
		switch x := args[0].(type) {
		case SliceV:
			setRes(s, S("%s", x.Len))
			return false
		case Scalar:
			if mt, ok := cc.Args[0].Type().Underlying().(*types.Map); ok {
				e.mapLenFacts(s, mt, x.T)
				setRes(s, S("%s", e.mapLen(s, mt, x.T)))
				return false
			}
			if sortOf(cc.Args[0].Type()) == "Str" {
				e.decl("(declare-fun |str.len| (Str) Int)")
				l := fmt.Sprintf("(|str.len| %s)", x.T)
				s.assume("(>= %s 0)", l)
				setRes(s, S("%s", l))
				return false
			}
		case ArrPtr:
			setRes(s, S("%d", x.Len))
			return false
		}
		r := e.symbolic(s, types.Typ[types.Int], "len").(Scalar)
		s.assume("(>= %s 0)", r.T)
		setRes(s, r)
		return false
	case "cap":
		if x, ok := args[0].(SliceV); ok {
			setRes(s, S("%s", x.Cap))
			return false
		}
		setRes(s, e.symbolic(s, types.Typ[types.Int], "cap"))
		return false
	case "delete":
		mt := cc.Args[0].Type().Underlying().(*types.Map)
		ref := e.scalarOf(args[0]).T
		key := e.keyTerm(mt, args[1])
		e.checkRangeMutation(s, mt, ref, key, true)
		e.mapDelete(s, mt, ref, key)
		return false
	case "copy":
		// copy(dst, src): dst elements become arbitrary within range (conservative), returns min(len)
		if dst, ok := args[0].(SliceV); ok {
			et := cc.Args[0].Type().Underlying().(*types.Slice).Elem()
			e.havocElemFams(s, "arr_"+sanitize(et.String()), et, dst.Arr)
		}
		setRes(s, e.symbolic(s, types.Typ[types.Int], "copied"))
		return false
	case "append":
		return e.appendOp(s, cc, args, setRes, rest)
	case "new":
		et := cc.Signature().Results().At(0).Type().(*types.Pointer).Elem()
		r := e.freshRef(s, "new")
		e.store(s, S("%s", r), zero(et), et)
		setRes(s, S("%s", r))
		return false
	case "panic":
		e.panicExit(s, "panic()")
		return true
	case "clear":
		e.abort("builtin clear not supported")
	}
	e.abort("unsupported builtin %s", b.Name())
	return false
}

// havoc the elements of one array object (other arrays keep their values)
func (e *Exec) havocElemFams(s *State, fam string, t types.Type, arr string) {
	e.disassemble(t, fam, e.symbolicQuiet(t), func(p, so, _ string) {
		old := e.cur(s, p, []string{"Ref", "Int"}, so)
		nw := e.hhavoc(s, p, []string{"Ref", "Int"}, so)
		s.assume("(forall ((r Ref) (i Int)) (! (=> (not (= r %s)) (= (%s r i) (%s r i))) :pattern ((%s r i))))", arr, nw, old, nw)
	})
}

func (e *Exec) appendOp(s *State, cc *ssa.CallCommon, args []Val, setRes func(*State, Val), rest func(*State)) bool {
	st, ok := cc.Args[0].Type().Underlying().(*types.Slice)
	if !ok {
		e.abort("append on non-slice")
	}
	et := st.Elem()
	fam := "arr_" + sanitize(et.String())
	base := args[0].(SliceV)
	add, ok := args[1].(SliceV)
	if !ok {
		// append([]byte, string...)
		r := e.symbolic(s, cc.Args[0].Type(), "appended").(SliceV)
		setRes(s, r)
		return false
	}
	if add.Len == "0" {
		setRes(s, base)
		return false
	}
	if add.Len != "1" {
		// general append of a slice: result is a fresh-or-in-place slice with the right length; contents:
		// prefix preserved, appended part copied (quantified)
		b := s.clone()
		narr := e.freshRef(b, "grow")
		e.copyElems(b, fam, et, base.Arr, base.Off, base.Len, narr, "0")
		e.copyElems(b, fam, et, add.Arr, add.Off, add.Len, narr, base.Len)
		ncap := e.symbolic(b, types.Typ[types.Int], "newcap").(Scalar).T
		nl := fmt.Sprintf("(+ %s %s)", base.Len, add.Len)
		b.assume("(>= %s %s)", ncap, nl)
		setRes(b, SliceV{Arr: narr, Off: "0", Len: nl, Cap: ncap})
		// in-place case
		a := s
		a.assume("(<= (+ %s %s) %s)", base.Len, add.Len, base.Cap)
		b.assume("(or (> (+ %s %s) %s) true)", base.Len, add.Len, base.Cap) // reallocation is always allowed to be considered
		// in place: elements written at base.off+base.len+i
		e.copyInPlace(a, fam, et, add, base)
		setRes(a, SliceV{Arr: base.Arr, Off: base.Off, Len: nl, Cap: base.Cap})
		rest(a)
		rest(b)
		return true
	}
	elem := e.load(s, ElemAddr{Arr: add.Arr, Idx: add.Off, Key: fam}, et)
	// case A: in place
	a := s.clone()
	a.assume("(< %s %s)", base.Len, base.Cap)
	a.trace = append(a.trace, "append:inplace")
	e.store(a, ElemAddr{Arr: base.Arr, Idx: addT(base.Off, base.Len), Key: fam}, elem, et)
	setRes(a, SliceV{Arr: base.Arr, Off: base.Off, Len: fmt.Sprintf("(+ %s 1)", base.Len), Cap: base.Cap})
	rest(a)
	// case B: reallocation (fresh array, quantified copy of every field family)
	b := s
	b.assume("(>= %s %s)", base.Len, base.Cap)
	b.trace = append(b.trace, "append:grow")
	narr := e.freshRef(b, "grow")
	e.copyElems(b, fam, et, base.Arr, base.Off, base.Len, narr, "0")
	e.store(b, ElemAddr{Arr: narr, Idx: base.Len, Key: fam}, elem, et)
	ncap := e.symbolic(b, types.Typ[types.Int], "newcap").(Scalar).T
	b.assume("(> %s %s)", ncap, base.Len)
	setRes(b, SliceV{Arr: narr, Off: "0", Len: fmt.Sprintf("(+ %s 1)", base.Len), Cap: ncap})
	rest(b)
	return true
}

func (e *Exec) copyElems(s *State, fam string, t types.Type, fromArr, fromOff, n, to, toOff string) {
	e.disassemble(t, fam, e.symbolicQuiet(t), func(p, so, _ string) {
		f := e.cur(s, p, []string{"Ref", "Int"}, so)
		body := fmt.Sprintf("(=> (and (<= %s j) (< j (+ %s %s))) (= (%s %s j) (%s %s (+ %s (- j %s)))))", toOff, toOff, n, f, to, f, fromArr, fromOff, toOff)
		s.assume("(forall ((j Int)) %s)", e.withPat(body, f, []string{to, "j"}))
		// the same fact indexed from the source side (trigger on reads of the source array)
		body2 := fmt.Sprintf("(=> (and (<= %s j) (< j (+ %s %s))) (= (%s %s (+ %s (- j %s))) (%s %s j)))", fromOff, fromOff, n, f, to, toOff, fromOff, f, fromArr)
		s.assume("(forall ((j Int)) %s)", e.withPat(body2, f, []string{fromArr, "j"}))
	})
}

func (e *Exec) copyInPlace(s *State, fam string, t types.Type, add, base SliceV) {
	e.disassemble(t, fam, e.symbolicQuiet(t), func(p, so, _ string) {
		old := e.cur(s, p, []string{"Ref", "Int"}, so)
		nw := e.hhavoc(s, p, []string{"Ref", "Int"}, so)
		lo := addT(base.Off, base.Len)
		s.assume("(forall ((r Ref) (i Int)) (! (= (%s r i) (ite (and (= r %s) (<= %s i) (< i (+ %s %s))) (%s %s (+ %s (- i %s))) (%s r i))) :pattern ((%s r i))))",
			nw, base.Arr, lo, lo, add.Len, old, add.Arr, add.Off, lo, old, nw)
	})
}

// ---------- modifies / frames ----------

type modSet struct {
	// family -> condition builder: given the argument variable names of the family, a term that is true when the location MAY be modified
	conds map[string][]func(args []string) string
	sigs  map[string]famSig
	all   bool
}

func newModSet() *modSet {
	return &modSet{conds: map[string][]func([]string) string{}, sigs: map[string]famSig{}}
}

func (m *modSet) add(fam string, sig famSig, f func(args []string) string) {
	m.conds[fam] = append(m.conds[fam], f)
	m.sigs[fam] = sig
}

func (m *modSet) cond(fam string, args []string) string {
	fs := m.conds[fam]
	if len(fs) == 0 {
		return "false"
	}
	var cs []string
	for _, f := range fs {
		cs = append(cs, f(args))
	}
	if len(cs) == 1 {
		return cs[0]
	}
	return "(or " + strings.Join(cs, " ") + ")"
}

// resolve modifies entries in the (pre-)state given by env
func (e *Exec) resolveModifies(ents []ModEntry, all bool, env *SpecEnv) *modSet {
	m := newModSet()
	m.all = all
	env.e = e
	if env.bound == nil {
		env.bound = map[string]bool{}
	}
	for _, ent := range ents {
		switch ent.Kind {
		case "ghost":
			g := e.w.ghosts[ent.Field]
			if g == nil {
				e.abort("modifies ghost %s: no such ghost variable", ent.Field)
			}
			if strings.HasPrefix(g.Type, "seq ") {
				et := e.w.resolveType(strings.TrimSpace(g.Type[4:]), g.Pkg)
				m.add("$g."+g.Name+".n", famSig{nil, "Int"}, func([]string) string { return "true" })
				e.disassemble(et, "$g."+g.Name+".row", e.symbolicQuiet(et), func(p, so, _ string) {
					m.add(p, famSig{[]string{"Int"}, so}, func([]string) string { return "true" })
				})
			} else {
				t := e.w.resolveType(g.Type, g.Pkg)
				e.disassemble(t, "$g."+g.Name, e.symbolicQuiet(t), func(p, so, _ string) {
					m.add(p, famSig{nil, so}, func([]string) string { return "true" })
				})
			}
		case "db":
			t := memTables[ent.Field]
			if t == nil {
				e.abort("modifies db(%s): unknown table", ent.Field)
			}
			e.memResolveAll()
			m.add(memFam("db", t, "has"), famSig{t.keySorts(), "Bool"}, func([]string) string { return "true" })
			m.add(memFam("db", t, "row"), famSig{t.keySorts(), "Ref"}, func([]string) string { return "true" })
		case "bt":
			ref := env.refOf(env.eval(ent.Obj))
			m.add("$bt.has", famSig{[]string{"Ref", "Int"}, "Bool"}, func(a []string) string { return fmt.Sprintf("(= %s %s)", a[0], ref) })
			m.add("$bt.item", famSig{[]string{"Ref", "Int"}, "Ref"}, func(a []string) string { return fmt.Sprintf("(= %s %s)", a[0], ref) })
		case "field", "object":
			ov := env.eval(ent.Obj)
			bt, isPtr := derefType(ov.T)
			if !isPtr {
				e.abort("modifies %s: %s is not a pointer", ent.Src, ov.T)
			}
			st, ok := bt.Underlying().(*types.Struct)
			if !ok {
				e.abort("modifies %s: not a struct pointer", ent.Src)
			}
			ref := env.refOf(ov)
			for i := 0; i < st.NumFields(); i++ {
				f := st.Field(i)
				if ent.Kind == "field" && f.Name() != ent.Field {
					continue
				}
				e.disassemble(f.Type(), structFam(bt, f.Name()), e.symbolicQuiet(f.Type()), func(p, so, _ string) {
					m.add(p, famSig{[]string{"Ref"}, so}, func(a []string) string { return fmt.Sprintf("(= %s %s)", a[0], ref) })
				})
			}
		case "pointee":
			ov := env.eval(ent.Obj)
			bt, isPtr := derefType(ov.T)
			if !isPtr {
				e.abort("modifies %s: not a pointer", ent.Src)
			}
			ref := env.refOf(ov)
			e.disassemble(bt, pointeeKey(bt), e.symbolicQuiet(bt), func(p, so, _ string) {
				m.add(p, famSig{[]string{"Ref"}, so}, func(a []string) string { return fmt.Sprintf("(= %s %s)", a[0], ref) })
			})
		case "container":
			ov := env.eval(ent.Obj)
			switch u := ov.T.Underlying().(type) {
			case *types.Map:
				ref := bterm(ov)
				fams, sigs := e.mapFamilies(u)
				for i, f := range fams {
					m.add(f, sigs[i], func(a []string) string { return fmt.Sprintf("(= %s %s)", a[0], ref) })
				}
			case *types.Slice:
				sv := ov.V.(SliceV)
				e.disassemble(u.Elem(), "arr_"+sanitize(u.Elem().String()), e.symbolicQuiet(u.Elem()), func(p, so, _ string) {
					m.add(p, famSig{[]string{"Ref", "Int"}, so}, func(a []string) string {
						return fmt.Sprintf("(and (= %s %s) (<= %s %s) (< %s (+ %s %s)))", a[0], sv.Arr, sv.Off, a[1], a[1], sv.Off, sv.Len)
					})
				})
			default:
				e.abort("modifies %s: not a map or slice", ent.Src)
			}
		case "elemfield":
			ov := env.eval(ent.Obj)
			sl, ok := ov.T.Underlying().(*types.Slice)
			if !ok {
				e.abort("modifies %s: not a slice", ent.Src)
			}
			sv := ov.V.(SliceV)
			if bt, isPtr := derefType(sl.Elem()); isPtr {
				st := bt.Underlying().(*types.Struct)
				for i := 0; i < st.NumFields(); i++ {
					f := st.Field(i)
					if ent.Field != "*" && f.Name() != ent.Field {
						continue
					}
					elemFam := "arr_" + sanitize(sl.Elem().String())
					pre := env.cur
					e.disassemble(f.Type(), structFam(bt, f.Name()), e.symbolicQuiet(f.Type()), func(p, so, _ string) {
						m.add(p, famSig{[]string{"Ref"}, so}, func(a []string) string {
							return fmt.Sprintf("(exists ((i!m Int)) (and (<= %s i!m) (< i!m (+ %s %s)) (= %s (%s %s i!m))))", sv.Off, sv.Off, sv.Len, a[0], e.cur(pre, elemFam, []string{"Ref", "Int"}, "Ref"), sv.Arr)
						})
					})
				}
			} else {
				st := sl.Elem().Underlying().(*types.Struct)
				for i := 0; i < st.NumFields(); i++ {
					f := st.Field(i)
					if f.Name() != ent.Field {
						continue
					}
					e.disassemble(f.Type(), "arr_"+sanitize(sl.Elem().String())+"."+f.Name(), e.symbolicQuiet(f.Type()), func(p, so, _ string) {
						m.add(p, famSig{[]string{"Ref", "Int"}, so}, func(a []string) string {
							return fmt.Sprintf("(and (= %s %s) (<= %s %s) (< %s (+ %s %s)))", a[0], sv.Arr, sv.Off, a[1], a[1], sv.Off, sv.Len)
						})
					})
				}
			}
		}
	}
	return m
}

// havoc the families of a modset in s and assume the frame w.r.t. the pre-state
func (e *Exec) havocModSet(s, pre *State, m *modSet) {
	if m.all {
		e.havocAll(s)
		// a CONTRACT that says 'modifies *' may also have changed the modelled stores and ghost variables (only calls
		// without any contract keep them: that assumption is reported per function)
		// 'modifies *' is the heap; modelled stores and ghost variables change only when listed (handled below)
	}
	for _, fam := range sortedKeys(m.conds) {
		if m.all && !storeGhostFam(fam) {
			continue // already havocked with the rest of the heap
		}
		sig := m.sigs[fam]
		old := e.cur(pre, fam, sig.Args, sig.Res)
		nw := e.hhavoc(s, fam, sig.Args, sig.Res)
		if len(sig.Args) == 0 {
			continue
		}
		var binders, as []string
		for i, so := range sig.Args {
			binders = append(binders, fmt.Sprintf("(a%d %s)", i, so))
			as = append(as, fmt.Sprintf("a%d", i))
		}
		s.assume("(forall (%s) (! (=> (not %s) (= %s %s)) :pattern (%s)))", strings.Join(binders, " "), m.cond(fam, as), app(nw, as...), app(old, as...), app(nw, as...))
	}
}

// ---------- contract application ----------

func (e *Exec) contractEnv(con *Contract, cur, old *State, args []Val) *SpecEnv {
	env := &SpecEnv{e: e, cur: cur, old: old, vars: map[string]TV{}, pkg: con.Pkg, bound: map[string]bool{}, foreign: true}
	if con.Fn != nil {
		env.calleeFn = con.Fn
	}
	// a generic callee applied at an instantiated call site: receiver and parameters have the call site's types (so that
	// field reads go to the same heap families the instantiated caller uses)
	ptypes := con.ParamTypes
	if cs := e.curCallSig; cs != nil && con.Sig != nil && (con.Sig.TypeParams().Len() > 0 || con.Sig.RecvTypeParams().Len() > 0) {
		var ct []types.Type
		if cs.Recv() != nil {
			ct = append(ct, cs.Recv().Type())
		}
		for i := 0; i < cs.Params().Len(); i++ {
			ct = append(ct, cs.Params().At(i).Type())
		}
		if len(ct) == len(con.ParamTypes) {
			ptypes = ct
		}
	}
	for i, n := range con.Params {
		if i < len(args) {
			env.vars[n] = TV{args[i], ptypes[i]}
		}
	}
	for alias, j := range con.ParamAliases {
		if j < len(args) {
			env.vars[alias] = TV{args[j], ptypes[j]}
		}
	}
	if con.IfaceRecvName != "" && len(args) > 0 && len(con.ParamTypes) > 0 {
		// clauses inherited from the interface contract name the receiver as a value of the interface type
		if _, taken := env.vars[con.IfaceRecvName]; !taken {
			env.vars[con.IfaceRecvName] = TV{e.makeInterface(cur, con.ParamTypes[0], args[0]), con.IfaceRecvType}
		}
	}
	return env
}

func bindResults(env *SpecEnv, sig *types.Signature, res Val) {
	rs := sig.Results()
	if rs.Len() == 0 {
		return
	}
	if rs.Len() == 1 {
		env.vars["result"] = TV{res, rs.At(0).Type()}
		env.vars["result0"] = TV{res, rs.At(0).Type()}
		if n := rs.At(0).Name(); n != "" && n != "_" {
			env.vars[n] = TV{res, rs.At(0).Type()}
		}
		return
	}
	tp := res.(Tuple)
	for i := 0; i < rs.Len(); i++ {
		env.vars[fmt.Sprintf("result%d", i)] = TV{tp.E[i], rs.At(i).Type()}
		if n := rs.At(i).Name(); n != "" && n != "_" {
			env.vars[n] = TV{tp.E[i], rs.At(i).Type()}
		}
	}
	// "err" as the conventional name of a trailing error result
	last := rs.At(rs.Len() - 1)
	if isIface(last.Type()) && last.Type().String() == "error" {
		if _, ok := env.vars["err"]; !ok {
			env.vars["err"] = TV{tp.E[rs.Len()-1], last.Type()}
		}
	}
}

func (e *Exec) applyContract(s *State, con *Contract, args []Val, setRes func(*State, Val)) {
	for _, a := range args {
		e.escape(s, a)
	}
	e.note("contract", con.Key)
	e.usedContracts[con.Key] = true
	pre := s.clone()
	e.vacSeq++
	vseq := e.vacSeq
	if e.w.vacuity {
		e.obls = append(e.obls, Oblig{Key: fmt.Sprintf("%s/vacuity@call#%s/pre%d", shortFunc(e.fname()), shortFunc(con.Key), vseq), Kind: "vacuity-pre", Func: e.fname(), Pre: append([]string{}, s.pc...), Goal: "false", Canary: true, Path: e.paths})
	}
	env := e.contractEnv(con, s, s, args)
	for _, l := range con.Lets {
		env.vars[l.Name] = env.eval(l.Expr)
	}
	short := shortFunc(con.Key)
	for _, r := range con.Requires {
		e.prove("requires@call", fmt.Sprintf("%s#%d", short, r.Ord), r.Tags, s, r.Expr, env, "requires "+r.Src+" of "+short+" at "+e.posStr(token.NoPos))
		g, facts := e.evalClause(r.Expr, env)
		s.pc = append(s.pc, facts...)
		s.assume("%s", g) // proved (or reported) above; later obligations may rely on it
	}
	// effects
	menv := e.contractEnv(con, pre, pre, args)
	for k, v := range env.vars {
		menv.vars[k] = v
	}
	ms := e.resolveModifies(con.Modifies, con.ModAll, menv)
	if !con.NoAlloc && !ms.all {
		e.allocGrow(s)
	}
	e.havocModSet(s, pre, ms)
	rsig := con.Sig
	if cs := e.curCallSig; cs != nil && cs.Results().Len() == con.Sig.Results().Len() && hasTypeParam(con.Sig.Results()) {
		rsig = cs // a generic callee: the results have the call site's instantiated types
	}
	res := e.symbolicResult(s, resultType(rsig), "r_"+sanitize(con.TFn.Name()))
	setRes(s, res)
	penv := e.contractEnv(con, s, pre, args)
	for k, v := range env.vars {
		if _, ok := penv.vars[k]; !ok {
			penv.vars[k] = v
		}
	}
	bindResults(penv, rsig, res)
	for _, en := range con.Ensures {
		g, facts := e.evalClause(en.Expr, penv)
		s.pc = append(s.pc, facts...)
		s.assume("%s", g)
	}
	if e.w.vacuity {
		e.obls = append(e.obls, Oblig{Key: fmt.Sprintf("%s/vacuity@call#%s/post%d", shortFunc(e.fname()), short, vseq), Kind: "vacuity-post", Func: e.fname(), Pre: append([]string{}, s.pc...), Goal: "false", Canary: true, Path: e.paths, Pos: e.posStr(token.NoPos), Desc: "assumptions after applying the contract of " + short + " must be satisfiable"})
	}
}

func (e *Exec) applyCallback(s *State, cb *CallbackSpec, sig *types.Signature, args []Val, setRes func(*State, Val)) {
	for _, a := range args {
		e.escape(s, a)
	}
	e.note("callback-contract", cb.Param)
	pre := s.clone()
	mk := func(cur, old *State) *SpecEnv {
		env := &SpecEnv{e: e, cur: cur, old: old, vars: map[string]TV{}, pkg: e.con.Pkg, fn: e.fn, bound: map[string]bool{}, loop: e.curLoop}
		for k, v := range e.entryVars {
			env.vars[k] = v
		}
		for i, n := range cb.Names {
			if i < len(args) {
				env.vars[n] = TV{args[i], sig.Params().At(i).Type()}
			}
		}
		return env
	}
	env := mk(s, e.entry)
	for _, r := range cb.Requires {
		// at a callback site "old" refers to the enclosing function's entry state
		e.prove("requires@callback", fmt.Sprintf("%s#%d", cb.Param, r.Ord), append(append([]string{}, e.con.Tags...), r.Tags...), s, r.Expr, env, "requires "+r.Src+" of callback "+cb.Param+" at "+e.posStr(token.NoPos))
		g, facts := e.evalClause(r.Expr, env)
		s.pc = append(s.pc, facts...)
		s.assume("%s", g)
	}
	ms := e.resolveModifies(cb.Modifies, cb.ModAll, mk(pre, pre))
	if !ms.all {
		e.allocGrow(s)
	}
	e.havocModSet(s, pre, ms)
	res := e.symbolicResult(s, resultType(sig), "cb_"+cb.Param)
	setRes(s, res)
	penv := mk(s, pre)
	rs := sig.Results()
	if rs.Len() == 1 {
		penv.vars["result"] = TV{res, rs.At(0).Type()}
	} else if rs.Len() > 1 {
		for i := 0; i < rs.Len(); i++ {
			penv.vars[fmt.Sprintf("result%d", i)] = TV{res.(Tuple).E[i], rs.At(i).Type()}
		}
	}
	for i, n := range cb.Results {
		if rs.Len() == 1 {
			penv.vars[n] = TV{res, rs.At(0).Type()}
		} else if i < rs.Len() {
			penv.vars[n] = TV{res.(Tuple).E[i], rs.At(i).Type()}
		}
	}
	for _, en := range cb.Ensures {
		g, facts := e.evalClause(en.Expr, penv)
		s.pc = append(s.pc, facts...)
		s.assume("%s", g)
	}
}

// assert-at clauses of the function under verification that name this callee
func (e *Exec) assertAts(s *State, callee string, args []Val, cc *ssa.CallCommon) {
	if e.con == nil || len(e.frames) > 0 {
		return
	}
	for _, aa := range e.con.AssertAts {
		if strings.HasSuffix(aa.Callee, "$") {
			if !strings.HasSuffix(callee, strings.TrimSuffix(aa.Callee, "$")) {
				continue // a pattern ending in $ must match the END of the callee's name
			}
		} else if !strings.Contains(callee, aa.Callee) {
			continue
		}
		if aa.Ord >= 0 && aa.Ord != e.siteOrd(aa.Callee, cc) {
			continue
		}
		env := &SpecEnv{e: e, cur: s, old: e.entry, vars: map[string]TV{}, pkg: e.con.Pkg, fn: e.fn, bound: map[string]bool{}, loop: e.curLoop}
		for kk, v := range e.entryVars {
			env.vars[kk] = v
		}
		// callee arguments are visible as $0, $1, ... and by the callee's parameter names where known
		for i, a := range args {
			var t types.Type
			if cc.IsInvoke() {
				if i == 0 {
					t = cc.Value.Type()
				} else {
					t = cc.Signature().Params().At(i - 1).Type()
				}
			} else if sg := cc.Signature(); sg != nil {
				off := 0
				if sg.Recv() != nil {
					off = 1
					if i == 0 {
						t = sg.Recv().Type()
					}
				}
				if t == nil && i-off < sg.Params().Len() {
					t = sg.Params().At(i - off).Type()
				}
			}
			env.vars[fmt.Sprintf("$%d", i)] = TV{a, t}
		}
		if !aa.Assume {
			e.prove("assert-at", fmt.Sprintf("%d", aa.Clause.Ord), aa.Clause.Tags, s, aa.Clause.Expr, env, "assert-at call "+aa.Callee+": "+aa.Clause.Src+" at "+e.posStr(token.NoPos))
		}
		// proved (or reported) above: from here on it is a stepping stone for later obligations
		g, facts := e.evalClauseOrFalse(aa.Clause.Expr, env)
		if g == "false" && !aa.Assume {
			continue // not evaluable: reported above, nothing to assume
		}
		s.pc = append(s.pc, facts...)
		s.assume("%s", g)
	}
}

// ordinal of a call site among the sites in the function whose callee name contains pat (source order)
func (e *Exec) siteOrd(pat string, cc *ssa.CallCommon) int {
	n := 0
	for _, b := range e.fn.Blocks {
		for _, ins := range b.Instrs {
			var c *ssa.CallCommon
			switch x := ins.(type) {
			case *ssa.Call:
				c = &x.Call
			case *ssa.Defer:
				c = &x.Call
			}
			if c == nil {
				continue
			}
			nm := ""
			if c.IsInvoke() {
				nm = c.Method.FullName()
			} else if sc := c.StaticCallee(); sc != nil {
				nm = sc.String()
			}
			if !strings.Contains(nm, pat) {
				continue
			}
			if c == cc {
				return n
			}
			n++
		}
	}
	return -1
}

// splitGoal: conjunctions and quantified equivalences are proved piecewise (smaller queries, sharper reports)
func splitGoal(x SExpr) []SExpr {
	switch n := x.(type) {
	case SBin:
		if n.Op == "&&" {
			return append(splitGoal(n.X), splitGoal(n.Y)...)
		}
		if n.Op == "<==>" {
			return []SExpr{SBin{"==>", n.X, n.Y}, SBin{"==>", n.Y, n.X}}
		}
		if n.Op == "==>" {
			parts := splitGoal(n.Y)
			if len(parts) > 1 {
				var out []SExpr
				for _, p := range parts {
					out = append(out, SBin{"==>", n.X, p})
				}
				return out
			}
		}
	case SQuant:
		if n.All {
			parts := splitGoal(n.Body)
			if len(parts) > 1 {
				var out []SExpr
				for _, p := range parts {
					out = append(out, SQuant{All: true, Vars: n.Vars, Body: p})
				}
				return out
			}
		}
	}
	return []SExpr{x}
}

// prove: emit the obligations for one clause in state s
// A clause that refers to a call the function under verification no longer makes (lastresult / callseq of a removed call)
// cannot be evaluated; it is reported as a FAILED obligation of that clause (goal false) rather than as an engine error.
type noSuchCall struct{ msg string }

func (e *Exec) evalClauseOrFalse(p SExpr, env *SpecEnv) (g string, facts []string) {
	defer func() {
		if r := recover(); r != nil {
			if nc, ok := r.(noSuchCall); ok {
				e.note("clause-not-evaluable", nc.msg)
				g, facts = "false", nil
				return
			}
			panic(r)
		}
	}()
	return e.evalClause(p, env)
}

func (e *Exec) prove(kind, ord string, tags []string, s *State, x SExpr, env *SpecEnv, desc string) {
	parts := splitGoal(x)
	for i, p := range parts {
		g, facts := e.evalClauseOrFalse(p, env)
		st := s
		if len(facts) > 0 {
			st = s.clone()
			st.pc = append(st.pc, facts...)
		}
		o := ord
		if len(parts) > 1 {
			o = fmt.Sprintf("%s.%d", ord, i+1)
		}
		e.obligeK(kind, o, tags, st, g, desc)
	}
}

// time.Time{}.IsZero() is true (the only fact about the otherwise uninterpreted IsZero)
func (e *Exec) timeZeroAxiom(tt types.Type) {
	zt, sorts := e.leaves(tt, zero(tt))
	z := "|ext." + sanitize("(time.Time).IsZero") + "|"
	e.decl(fmt.Sprintf("(declare-fun %s (%s) Bool)", z, strings.Join(sorts, " ")))
	e.axiomOnce("time.iszero.zero", app(z, zt...))
}

func hasTypeParam(tu *types.Tuple) bool {
	var has func(t types.Type, d int) bool
	has = func(t types.Type, d int) bool {
		if d > 4 {
			return false
		}
		switch u := t.(type) {
		case *types.TypeParam:
			return true
		case *types.Pointer:
			return has(u.Elem(), d+1)
		case *types.Slice:
			return has(u.Elem(), d+1)
		case *types.Map:
			return has(u.Key(), d+1) || has(u.Elem(), d+1)
		}
		return false
	}
	for i := 0; i < tu.Len(); i++ {
		if has(tu.At(i).Type(), 0) {
			return true
		}
	}
	return false
}
