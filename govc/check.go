package main

func cmdCheck(args []string) int { return 2 }
