// check.go: the per-property check driver — cone selection by tag, known findings, ledger, replay files, evidence.
package main

import (
	"encoding/json"
	"flag"
	"fmt"
	"os"
	"path/filepath"
	"sort"
	"strconv"
	"strings"
	"time"
)

type PropConfig struct {
	Packages  []string `json:"packages"`
	Undecided []string `json:"undecided_clauses"`
	Note      string   `json:"note"`
}

type Finding struct {
	Kind     string // "finding" or "fixed"
	Property string
	Key      string
	Text     string
}

func loadFindings(path string) []Finding {
	var out []Finding
	data, err := os.ReadFile(path)
	if err != nil {
		return nil
	}
	for _, ln := range strings.Split(string(data), "\n") {
		ln = strings.TrimSpace(ln)
		if ln == "" || strings.HasPrefix(ln, "#") {
			continue
		}
		f := Finding{}
		switch {
		case strings.HasPrefix(ln, "finding:"):
			f.Kind = "finding"
			ln = strings.TrimSpace(ln[len("finding:"):])
		case strings.HasPrefix(ln, "fixed:"):
			f.Kind = "fixed"
			ln = strings.TrimSpace(ln[len("fixed:"):])
		default:
			continue
		}
		// property=<id> key=<obligation key> :: text
		parts := strings.SplitN(ln, "::", 2)
		if len(parts) == 2 {
			f.Text = strings.TrimSpace(parts[1])
		}
		head := parts[0]
		if i := strings.Index(head, "property="); i >= 0 {
			f.Property = strings.Fields(head[i+9:])[0]
		}
		if i := strings.Index(head, "key="); i >= 0 {
			f.Key = strings.TrimSpace(head[i+4:])
		}
		out = append(out, f)
	}
	return out
}

type keyStatus struct {
	Key       string
	Kind      string
	Tags      []string
	Func      string
	Instances int
	Failed    []int // indexes into rr.Results
	Desc      string
	Millis    int64
}

func cmdCheck(args []string) int {
	fs := flag.NewFlagSet("check", flag.ExitOnError)
	repo := fs.String("repo", "/repo", "repository root")
	verif := fs.String("verif", "/verif", "verif directory")
	prop := fs.String("property", "", "property id")
	tier := fs.String("tier", "quick", "quick|thorough")
	updateLedger := fs.Bool("update-ledger", false, "rewrite the ledger of discharged obligation keys")
	mutant := fs.String("mutant", "", "file|old|new  (in-memory overlay; for self-tests)")
	quiet := fs.Bool("q", false, "less output")
	fs.Parse(args)
	if t := os.Getenv("VERIF_TIER"); t != "" && *tier == "" {
		*tier = t
	}
	seed := 0
	if sd := os.Getenv("VERIF_SEED"); sd != "" {
		seed, _ = strconv.Atoi(sd)
	}
	t0 := time.Now()
	var props map[string]PropConfig
	data, err := os.ReadFile(filepath.Join(*verif, "props.json"))
	if err != nil {
		fmt.Fprintln(os.Stderr, "props.json:", err)
		return 2
	}
	if err := json.Unmarshal(data, &props); err != nil {
		fmt.Fprintln(os.Stderr, "props.json:", err)
		return 2
	}
	pc, ok := props[*prop]
	if !ok {
		fmt.Fprintln(os.Stderr, "unknown property", *prop)
		return 2
	}
	overlay := map[string][]byte{}
	if *mutant != "" {
		parts := strings.SplitN(*mutant, "|", 3)
		src, err := os.ReadFile(parts[0])
		if err != nil || !strings.Contains(string(src), parts[1]) {
			fmt.Fprintln(os.Stderr, "mutant pattern not found")
			return 2
		}
		overlay[parts[0]] = []byte(strings.Replace(string(src), parts[1], parts[2], 1))
	}
	replayDir := filepath.Join(*verif, "replays", *prop)
	os.RemoveAll(replayDir)
	violations := 0
	violation := func(name, why string, extra map[string]interface{}, noInput bool) {
		os.MkdirAll(replayDir, 0o755)
		path := filepath.Join(replayDir, sanitize(name)+".json")
		if extra == nil {
			extra = map[string]interface{}{}
		}
		extra["property"] = *prop
		extra["obligation"] = name
		extra["what"] = why
		b, _ := json.MarshalIndent(extra, "", " ")
		os.WriteFile(path, b, 0o644)
		suffix := ""
		if noInput {
			suffix = " no-failing-input-found"
		}
		fmt.Printf("VIOLATION property=%s replay=%s%s\n", *prop, path, suffix)
		fmt.Printf("  obligation: %s\n  %s\n", name, why)
		violations++
	}
	w, err := loadWorld(*repo, pc.Packages, overlay)
	if err != nil {
		// the tree does not load (does not compile with the verif tag): the check cannot decide anything
		fmt.Fprintln(os.Stderr, "load:", err)
		violation("load", "the repository does not load with build tag verif: "+err.Error(), nil, true)
		writeEvidence(*verif, *prop, *tier, seed, nil, nil, nil, time.Since(t0), violations, pc, nil)
		return 1
	}
	if err := w.loadContracts(*verif); err != nil {
		fmt.Fprintln(os.Stderr, "contracts:", err)
		return 2
	}
	for _, b := range w.checkImmutables() {
		violation("immutable/"+b, "a field declared immutable (kept by every havoc in the proofs) is assigned outside its object's construction: "+b, nil, true)
	}
	for _, b := range w.checkClosed() {
		violation("closed/"+b, "an interface declared closed (its method calls are dispatched to the listed types) has an unlisted implementation or a wrong entry: "+b, nil, true)
	}
	loadSecs := time.Since(t0).Seconds()
	var roots []*Contract
	for _, k := range sortedKeys(w.contracts) {
		c := w.contracts[k]
		if c.External || c.Interface {
			continue
		}
		if contractHasTag(c, *prop) {
			roots = append(roots, c)
		}
	}
	var lemmas []*Lemma
	for _, lm := range w.lemmas {
		if hasTag(lm.Tags, *prop) {
			lemmas = append(lemmas, lm)
		}
	}
	timeout := 10
	noCache := false
	if *tier == "thorough" {
		timeout = 60
		noCache = true
	}
	work := filepath.Join(*verif, ".work", *prop)
	os.MkdirAll(work, 0o755)
	sv := &Solver{workDir: work, timeout: time.Duration(timeout) * time.Second, cacheDir: filepath.Join(*verif, ".work", "cache"), noCache: noCache, retryFactor: 3, noRetry: map[string]bool{}}
	for _, f := range loadFindings(filepath.Join(*verif, "known_findings.txt")) {
		if f.Kind == "finding" {
			sv.noRetry[f.Key] = true
		}
	}
	rr := w.verifyCone(roots, lemmas, sv, false)

	// ---- aggregate by key ----
	keys := map[string]*keyStatus{}
	var order []string
	vacuous := []string{}
	beTotal, beFeasible := map[string]int{}, map[string]int{}
	feasible := map[string]int{}
	paths := map[string]int{}
	for i := range rr.Results {
		r := &rr.Results[i]
		if r.O.Canary {
			if strings.HasSuffix(r.O.Key, "@exit") {
				paths[r.O.Func]++
				if r.R.Status != "unsat" {
					feasible[r.O.Func]++
				}
			} else if r.O.Kind == "vacuity-backedge" {
				beTotal[r.O.Key]++
				if r.R.Status != "unsat" {
					beFeasible[r.O.Key]++
				}
			} else if r.O.Kind == "vacuity-pre" {
			} else if r.R.Status == "unsat" && (r.O.Kind != "vacuity-post" || postVacuous(rr, r)) {
				vacuous = append(vacuous, r.O.Key+": "+r.O.Desc)
			}
			continue
		}
		ks := keys[r.O.Key]
		if ks == nil {
			ks = &keyStatus{Key: r.O.Key, Kind: r.O.Kind, Tags: r.O.Tags, Func: r.O.Func, Desc: r.O.Desc}
			keys[r.O.Key] = ks
			order = append(order, r.O.Key)
		}
		ks.Instances++
		ks.Millis += r.R.Millis
		if r.R.Status != "unsat" {
			ks.Failed = append(ks.Failed, i)
		}
	}
	sort.Strings(order)
	findings := loadFindings(filepath.Join(*verif, "known_findings.txt"))
	isKnown := func(key string) *Finding {
		for i := range findings {
			f := &findings[i]
			if f.Kind == "finding" && f.Property == *prop && f.Key == key {
				return f
			}
		}
		return nil
	}
	// ---- structural problems ----
	for _, m := range w.missing {
		violation("contract-target-missing", m, nil, true)
	}
	for _, fr := range rr.Funcs {
		for _, er := range fr.Errors {
			name := shortFunc(fr.Func) + "/undecided"
			if kf := isKnown(name); kf != nil {
				fmt.Printf("KNOWN-FINDING: property=%s %s %s\n", *prop, name, kf.Text)
				continue
			}
			violation(name, "the function can no longer be verified (outside the subset / needs contract): "+er, nil, true)
		}
		if paths[fr.Func] > 0 && feasible[fr.Func] == 0 {
			violation(shortFunc(fr.Func)+"/vacuity", "no feasible path reaches an exit of "+shortFunc(fr.Func)+": the proof is vacuous", nil, true)
		}
	}
	for k, t := range beTotal {
		if beFeasible[k] == 0 {
			vacuous = append(vacuous, fmt.Sprintf("%s: none of the %d paths through the loop body is feasible", k, t))
		}
	}
	for _, v := range vacuous {
		violation("vacuity/"+v[:strings.Index(v, ":")], "vacuity guard failed (assumptions are contradictory): "+v, nil, true)
	}
	// ---- obligations ----
	nObl, nDis := 0, 0
	knownHit := map[string]bool{}
	var knownList []string
	byBackend := map[string]int{}
	var solverMs int64
	type slow struct {
		Key string
		Ms  int64
	}
	var slowest []slow
	for i := range rr.Results {
		r := &rr.Results[i]
		if r.O.Canary {
			continue
		}
		solverMs += r.R.Millis
		if r.R.Status == "unsat" {
			byBackend[r.R.Solver]++
		}
		slowest = append(slowest, slow{r.O.Key, r.R.Millis})
	}
	sort.Slice(slowest, func(i, j int) bool { return slowest[i].Ms > slowest[j].Ms })
	if len(slowest) > 5 {
		slowest = slowest[:5]
	}
	otherProp := 0
	callerTags := map[string][]string{}
	for _, fr := range rr.Funcs {
		if fr.Contract != nil {
			callerTags[fr.Func] = fr.Contract.Tags
		}
	}
	for _, k := range order {
		ks := keys[k]
		// a clause tagged for other properties only is reported by those properties' checks ...
		if (ks.Kind == "ensures" || ks.Kind == "assert-at" || ks.Kind == "lemma" || strings.HasPrefix(ks.Kind, "requires@call")) && len(ks.Tags) > 0 && !hasTag(ks.Tags, *prop) {
			// ... except a callee's precondition at a call site of a function that belongs to THIS property: the callee's
			// own property may not have the caller in its cone, and an unmet precondition makes everything this function
			// concludes from the callee's postconditions unfounded
			if !(strings.HasPrefix(ks.Kind, "requires@call") && hasTag(callerTags[ks.Func], *prop)) {
				otherProp += ks.Instances
				continue
			}
		}
		if len(ks.Failed) == 0 {
			nObl += ks.Instances
			nDis += ks.Instances
			continue
		}
		if kf := isKnown(k); kf != nil {
			knownHit[k] = true
			knownList = append(knownList, k+" :: "+kf.Text)
			fmt.Printf("KNOWN-FINDING: property=%s %s %s\n", *prop, k, kf.Text)
			continue
		}
		nObl += ks.Instances
		nDis += ks.Instances - len(ks.Failed)
		r := &rr.Results[ks.Failed[0]]
		extra := map[string]interface{}{
			"function": shortFunc(ks.Func), "kind": ks.Kind, "clause": ks.Desc, "position": r.O.Pos, "path": r.O.Trace,
			"solver_status": r.R.Status, "solver": r.R.Solver, "failing_instances": len(ks.Failed), "instances": ks.Instances,
		}
		os.MkdirAll(replayDir, 0o755)
		smtPath := filepath.Join(replayDir, sanitize(k)+".smt2")
		os.WriteFile(smtPath, []byte(r.SMT), 0o644)
		extra["smt_file"] = smtPath
		model := ""
		if r.R.Status == "sat" {
			model = sv.model(r.SMT, 5)
			os.WriteFile(filepath.Join(replayDir, sanitize(k)+".model.txt"), []byte(model), 0o644)
			extra["model_file"] = filepath.Join(replayDir, sanitize(k)+".model.txt")
		}
		extra["solver_output"] = firstLines(r.R.Output, 6)
		inLedger := ledgerHas(*verif, *prop, k)
		extra["discharged_on_unchanged_tree"] = inLedger
		rep := tryReplay(w, *verif, *prop, ks, r, model)
		noInput := true
		if rep != nil {
			for kk, vv := range rep {
				extra[kk] = vv
			}
			if c, ok := rep["replay_confirmed"].(bool); ok && c {
				noInput = false
			}
		}
		violation(k, fmt.Sprintf("%s — not discharged (%s by %s) at %s", ks.Desc, r.R.Status, r.R.Solver, r.O.Pos), extra, noInput)
	}
	// stale findings
	for _, f := range findings {
		if f.Kind == "finding" && f.Property == *prop && !knownHit[f.Key] {
			if _, present := keys[f.Key]; present {
				fmt.Printf("NOTE: known finding no longer fails (stale entry): %s\n", f.Key)
			} else if !strings.HasSuffix(f.Key, "/undecided") {
				fmt.Printf("NOTE: known finding's obligation is not generated in this run: %s\n", f.Key)
			}
		}
	}
	// ledger
	ledgerPath := filepath.Join(*verif, "ledger", *prop+".txt")
	if *updateLedger {
		os.MkdirAll(filepath.Dir(ledgerPath), 0o755)
		// the ledger holds the obligations that BELONG to this property: clauses tagged with it and every obligation of a
		// function (or lemma) whose contract carries the tag. Obligations of functions that are in the cone only as
		// dependencies of other properties' clauses are left out: whether they are generated depends on those contracts.
		funcTags := map[string][]string{}
		for _, fr := range rr.Funcs {
			if fr.Contract != nil {
				funcTags[fr.Func] = fr.Contract.Tags
			}
		}
		var sb strings.Builder
		for _, k := range order {
			ks := keys[k]
			if len(ks.Failed) != 0 {
				continue
			}
			if hasTag(ks.Tags, *prop) || hasTag(funcTags[ks.Func], *prop) {
				sb.WriteString(k + "\n")
			}
		}
		os.WriteFile(ledgerPath, []byte(sb.String()), 0o644)
	} else if data, err := os.ReadFile(ledgerPath); err == nil && *mutant == "" {
		for _, k := range strings.Split(strings.TrimSpace(string(data)), "\n") {
			if k == "" {
				continue
			}
			if _, present := keys[k]; !present && !strings.Contains(k, "/safety/") && !strings.Contains(k, "/frame") {
				violation(k+"/vanished", "an obligation that was discharged on the unchanged tree is no longer generated (the contract clause or the function it covers disappeared): "+k, nil, true)
			}
		}
	}
	if nObl == 0 && violations == 0 {
		violation("no-obligations", "the check generated zero obligations", nil, true)
	}
	wall := time.Since(t0)
	writeEvidence(*verif, *prop, *tier, seed, w, rr, keys, wall, violations, pc, map[string]interface{}{
		"obligations": nObl, "discharged": nDis, "by_backend": byBackend, "solver_time_s": float64(solverMs) / 1000, "slowest": slowest,
		"known_findings": knownList, "load_s": loadSecs, "order": order, "obligations_of_other_properties_in_cone": otherProp,
	})
	if !*quiet {
		fmt.Printf("property %s (%s): %d functions/lemmas in cone, %d obligation instances, %d discharged, %d known findings, %d violations, %.1fs (load %.1fs)\n",
			*prop, *tier, len(rr.Funcs), nObl, nDis, len(knownList), violations, wall.Seconds(), loadSecs)
	}
	if violations > 0 {
		return 1
	}
	return 0
}

func firstLines(s string, n int) string {
	ls := strings.Split(s, "\n")
	if len(ls) > n {
		ls = ls[:n]
	}
	return strings.Join(ls, "\n")
}

func ledgerHas(verif, prop, key string) bool {
	data, err := os.ReadFile(filepath.Join(verif, "ledger", prop+".txt"))
	if err != nil {
		return false
	}
	for _, k := range strings.Split(string(data), "\n") {
		if k == key {
			return true
		}
	}
	return false
}

func writeEvidence(verif, prop, tier string, seed int, w *World, rr *RunResult, keys map[string]*keyStatus, wall time.Duration, violations int, pc PropConfig, cov map[string]interface{}) {
	if cov == nil {
		cov = map[string]interface{}{"obligations": 0, "discharged": 0}
	}
	order, _ := cov["order"].([]string)
	delete(cov, "order")
	cov["checker_cmd"] = fmt.Sprintf("/verif/check %s %s   (govc: go/ssa symbolic execution against //@ contracts; obligations discharged by z3-new 5.1.0 / z3 4.8.12 / cvc5 1.0, first unsat wins)", prop, tier)
	trusted := []string{
		"govc itself (SSA-to-SMT translation, heap model, havoc sets, contract parser)",
		"go/ssa and go/types of golang.org/x/tools v0.29.0 agree with the Go compiler",
		"the SMT solvers (an obligation counts as discharged when one of three independent solvers answers unsat)",
		"sequential semantics: no other goroutine touches the objects during a call",
	}
	var assumptions []string
	var fuc []string
	samples := []interface{}{}
	if rr != nil {
		mathInts := []string{}
		seenA := map[string]bool{}
		add := func(s string) {
			if !seenA[s] {
				seenA[s] = true
				assumptions = append(assumptions, s)
			}
		}
		for _, fr := range rr.Funcs {
			c := fr.Contract
			name := shortFunc(fr.Func)
			switch {
			case c != nil && c.Interface:
				add("interface-method contract assumed for implementations out of reach: " + name)
			case c != nil && c.External:
				add("assumed contract of external function (body not read): " + name)
			case c != nil && c.Trusted:
				add("trusted contract (body not verified): " + name)
			default:
				fuc = append(fuc, fmt.Sprintf("%s (%d paths)", name, fr.Paths))
				if c != nil && !c.Checked && c.Fn != nil {
					mathInts = append(mathInts, name)
				}
				if c != nil {
					for _, r := range c.Requires {
						add("top-level precondition assumed unless a verified caller discharges it: " + name + " requires " + r.Src)
					}
					for _, r := range c.Assumes {
						add("system invariant assumed (never checked at call sites): " + name + " assumes " + r.Src)
					}
					for _, aa := range c.AssertAts {
						if aa.Assume {
							add("call-site assumption (invariant of an unmodelled container, never checked): " + name + " assume-at call " + aa.Callee + ": " + aa.Clause.Src)
						}
					}
					for _, st := range c.Stable {
						add("abstracted callees assumed not to write " + st.Src + " (in " + name + ")")
					}
					if len(c.StableTypes) > 0 {
						add("abstracted callees assumed not to write any field of " + strings.Join(c.StableTypes, ", ") + " (in " + name + ")")
					}
					if c.AbstractCalls {
						add("callees without contract abstracted as unknown calls (result arbitrary, heap havocked, ghost state kept) in " + name)
					}
				}
			}
			for _, kind := range sortedKeys(fr.Stats) {
				if kind == "contract" || kind == "inlined" || kind == "callback-contract" {
					continue
				}
				for _, cal := range sortedKeys(fr.Stats[kind]) {
					add(kind + ": " + shortFunc(cal))
				}
			}
		}
		if len(mathInts) > 0 {
			add("machine integers treated as mathematical integers (no overflow obligations; type ranges assumed for inputs and loads) in: " + strings.Join(mathInts, ", "))
		}
		sort.Strings(fuc)
		// samples: a few obligations written out
		n := 0
		for _, k := range order {
			ks := keys[k]
			if ks == nil || (ks.Kind != "ensures" && ks.Kind != "lemma" && ks.Kind != "assert-at") {
				continue
			}
			st := "discharged"
			if len(ks.Failed) > 0 {
				st = "NOT discharged"
			}
			samples = append(samples, map[string]interface{}{"obligation": k, "clause": ks.Desc, "instances": ks.Instances, "status": st})
			n++
			if n >= 12 {
				break
			}
		}
	}
	if len(samples) == 0 {
		samples = append(samples, "no obligations were generated")
	}
	cov["samples"] = samples
	cov["trusted_base"] = trusted
	cov["functions_under_contract"] = fuc
	cov["undecided_clauses"] = pc.Undecided
	cov["bounded"] = []string{}
	if w != nil {
		cov["contract_files"] = w.contractFiles
	}
	ev := map[string]interface{}{
		"property_id": prop, "tier": tier, "seed": seed, "level": "proof", "coverage": cov, "assumptions": assumptions,
		"wall_s": wall.Seconds(), "violations": violations,
	}
	os.MkdirAll(filepath.Join(verif, "evidence"), 0o755)
	b, _ := json.MarshalIndent(ev, "", " ")
	os.WriteFile(filepath.Join(verif, "evidence", prop+".json"), b, 0o644)
}

// tryReplay: concrete replay of a counterexample on the real code, where a replay driver exists for the function
func tryReplay(w *World, verif, prop string, ks *keyStatus, r *OblResult, model string) map[string]interface{} {
	return runReplayDriver(w, verif, prop, ks, r, model)
}
