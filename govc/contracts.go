// contracts.go: the contract table — parsing of //@ comment files in /repo (build tag verif) and of assumed
// contracts for external packages under /verif/contracts.
package main

import (
	"fmt"
	"go/types"
	"os"
	"path/filepath"
	"regexp"
	"sort"
	"strconv"
	"strings"

	"golang.org/x/tools/go/ssa"
)

type Clause struct {
	Tags []string
	Expr SExpr
	Src  string
	Ord  int
	Name string // optional stable name: ensures[C11:removed_doc_stores_nothing] ...
}

// label of a clause in obligation keys: its name if it has one, else its ordinal
func (c Clause) Label() string {
	if c.Name != "" {
		return "@" + c.Name
	}
	return fmt.Sprint(c.Ord)
}

// splitTagNames: "C11:name" -> tag C11 and the clause name
func splitTagNames(tags []string) ([]string, string) {
	var out []string
	name := ""
	for _, t := range tags {
		if i := strings.Index(t, ":"); i >= 0 {
			name = t[i+1:]
			t = t[:i]
		}
		if t != "" {
			out = append(out, t)
		}
	}
	return out, name
}

type ModEntry struct {
	Kind  string // "field" (obj.f), "object" (obj.*), "map" (m[*]), "elems" (s[*]), "elemfield" (s[*].f), "ghost", "pointee" (*p)
	Obj   SExpr
	Field string
	Src   string
}

type LoopSpec struct {
	Preserves []ModEntry
	Invs      []Clause
	Steps     []Clause // proved at the back edge only; may use at_head(...)
	Decreases SExpr
	DecSrc    string
}

type AssertAt struct {
	Callee string // substring of callee name
	Ord    int    // -1: every call
	Clause Clause
	Assume bool // assume-at: an explicit, reported assumption at the call site (invariant of an unmodelled container)
}

type CallbackSpec struct { // contract of a function-typed parameter
	Param    string
	Names    []string // argument names
	Results  []string
	Requires []Clause
	Ensures  []Clause
	Modifies []ModEntry
	ModAll   bool
}

type Contract struct {
	Key         string
	File        string
	Line        int
	Header      string
	Pkg         *types.Package
	Fn          *ssa.Function
	TFn         *types.Func
	Sig         *types.Signature
	Params      []string // receiver first
	ParamTypes  []types.Type
	Tags        []string
	Requires    []Clause
	Assumes     []Clause
	Ensures     []Clause
	EnsPanic    []Clause
	Modifies    []ModEntry
	ModAll      bool
	HasModifies bool
	Loops       map[int]*LoopSpec
	IterLoops   map[int]*LoopSpec
	AssertAts   []AssertAt
	Lets        []struct {
		Name string
		Expr SExpr
	}
	Callbacks     map[string]*CallbackSpec
	Trusted       bool
	External      bool
	Inline        bool
	Wrapping      bool // arith wrapping: fixed-width two's-complement semantics for + - * and integer conversions
	AbstractAll   bool // abstract-all: like abstract-calls, and no callee body is read unless named by call-inline
	AbstractCalls bool
	MayPanic      bool
	AllowSend     bool
	Checked       bool // arith checked
	NoAlloc       bool
	Interface     bool
	InlineCallees []string
	PanicsAt      []string // callees whose calls may panic (an extra, unwinding path is explored at each such call)
	AbstractCallees []string
	PathLimit     int
	IfaceRecvName string     // implements: the name the interface contract uses for its receiver ...
	IfaceRecvType types.Type // ... and the interface type it has there
	ImplOf        string // this method implements the contract of an interface method (checked against it)
	StableTypes   []string   // struct types none of whose fields an abstracted (unknown) callee is assumed to write
	Stable        []ModEntry // locations assumed not to be written by abstracted (unknown) callees
	ImplContract  *Contract
	ParamAliases  map[string]int
}

type SpecFunc struct {
	Name   string
	Params []QVar
	Result string
	Body   SExpr
	Src    string
	Pkg    *types.Package
	Named  bool // emitted as a named predicate with a definitional axiom
}

type GhostVar struct {
	Name string
	Type string // "int", "bool", "seq T"
	Pkg  *types.Package
}

type Axiom struct {
	Expr SExpr
	Src  string
	Pkg  *types.Package
}

type LemmaStmt struct {
	Kind   string // "var", "call", "assume", "assert", "havoc"
	Names  []string
	Type   string
	Callee string
	Args   []SExpr
	Expr   SExpr
	Tags   []string
	Src    string
}

type Lemma struct {
	Name   string
	Tags   []string
	Pkg    *types.Package
	Params []QVar
	Stmts  []LemmaStmt
	File   string
}

var clauseKW = []string{"assume-at", "assumes", "stable-types", "stable", "loop-call", "requires", "ensures-on-panic", "ensures", "modifies", "loop", "assert-at", "trusted", "inline", "abstract-all", "abstract-calls", "panics-at", "may-panic",
	"allow-send", "arith", "let", "noalloc", "call-inline", "call-abstract", "callback", "path-limit", "implements", "var", "call", "assume", "assert", "havoc"}
var topKW = []string{"func", "spec", "ghost", "axiom", "lemma", "package", "table", "immutable", "closed"}

type rawItem struct {
	head  string
	lines []string
	file  string
	line  int
}

// extract //@ lines of a Go contract file (or all lines of a .spec file)
func contractLines(path string, goFile bool) ([]string, []int, error) {
	data, err := os.ReadFile(path)
	if err != nil {
		return nil, nil, err
	}
	var out []string
	var nums []int
	for i, ln := range strings.Split(string(data), "\n") {
		t := strings.TrimSpace(ln)
		if goFile {
			if strings.HasPrefix(t, "//@") {
				t = t[3:]
			} else if strings.HasPrefix(t, "// @") {
				t = t[4:]
			} else {
				continue
			}
		} else if strings.HasPrefix(t, "#") {
			continue
		}
		// strip trailing comment
		if j := strings.Index(t, " // "); j >= 0 {
			t = t[:j]
		}
		if strings.HasPrefix(strings.TrimSpace(t), "//") {
			continue
		}
		t = strings.TrimSpace(t)
		if t == "" {
			continue
		}
		out = append(out, t)
		nums = append(nums, i+1)
	}
	return out, nums, nil
}

func startsWithKW(line string, kws []string) string {
	for _, k := range kws {
		if line == k || strings.HasPrefix(line, k+" ") || strings.HasPrefix(line, k+"[") || strings.HasPrefix(line, k+":") {
			return k
		}
	}
	return ""
}

func splitItems(lines []string, nums []int, file string) []rawItem {
	var items []rawItem
	for i, ln := range lines {
		if startsWithKW(ln, topKW) != "" {
			items = append(items, rawItem{head: ln, file: file, line: nums[i]})
			continue
		}
		if len(items) == 0 {
			continue
		}
		it := &items[len(items)-1]
		if startsWithKW(ln, clauseKW) != "" || len(it.lines) == 0 {
			it.lines = append(it.lines, ln)
		} else {
			it.lines[len(it.lines)-1] += " " + ln
		}
	}
	return items
}

var reFuncHead = regexp.MustCompile(`^func(\[[^\]]*\])?\s*(\(\s*(\w+\s+)?(\*?)\s*([\w.]+)(\[[^\]]*\])?\s*\))?\s*(\w+)\s*\(`)
var reTags = regexp.MustCompile(`^\[([^\]]*)\]`)

func parseTags(s string) ([]string, string) {
	if m := reTags.FindStringSubmatch(s); m != nil {
		var tags []string
		for _, t := range strings.Split(m[1], ",") {
			if t = strings.TrimSpace(t); t != "" {
				tags = append(tags, t)
			}
		}
		return tags, strings.TrimSpace(s[len(m[0]):])
	}
	return nil, strings.TrimSpace(s)
}

func (w *World) loadContractFile(path string, pkg *types.Package, goFile bool) error {
	lines, nums, err := contractLines(path, goFile)
	if err != nil {
		return err
	}
	items := splitItems(lines, nums, path)
	for _, it := range items {
		kw := startsWithKW(it.head, topKW)
		switch kw {
		case "package":
			p := strings.TrimSpace(strings.TrimPrefix(it.head, "package"))
			if !goFile {
				pp := w.byPath[p]
				if pp == nil {
					// package not loaded in this run: skip the rest of the items until the next package line
					pkg = nil
				} else {
					pkg = pp.Types
				}
			}
		case "func":
			if pkg == nil {
				continue
			}
			if err := w.parseFuncContract(it, pkg, !goFile); err != nil {
				return fmt.Errorf("%s:%d: %v", path, it.line, err)
			}
		case "spec":
			if err := w.parseSpecFunc(it, pkg); err != nil {
				return fmt.Errorf("%s:%d: %v", path, it.line, err)
			}
		case "ghost":
			// ghost var name type
			f := strings.Fields(it.head)
			if len(f) < 4 || f[1] != "var" {
				return fmt.Errorf("%s:%d: ghost var <name> <type>", path, it.line)
			}
			w.ghosts[f[2]] = &GhostVar{Name: f[2], Type: strings.Join(f[3:], " "), Pkg: pkg}
		case "immutable":
			// immutable <Type>.<field>: an unexported field written only while its object is being constructed;
			// checked mechanically (checkImmutable) and then kept by every havoc
			if pkg == nil {
				continue
			}
			f := strings.Fields(it.head)
			if len(f) != 2 || !strings.Contains(f[1], ".") {
				return fmt.Errorf("%s:%d: immutable <Type>.<field>", path, it.line)
			}
			i := strings.LastIndex(f[1], ".")
			w.immutables = append(w.immutables, Immutable{Pkg: pkg, Type: f[1][:i], Field: f[1][i+1:], File: path, Line: it.line})
		case "closed":
			// closed <Interface> = T1, T2, ... : the listed types are ALL implementations (checked against every loaded
			// package); interface method calls on it are dispatched to the concrete methods
			if pkg == nil {
				continue
			}
			rest := strings.TrimSpace(strings.TrimPrefix(it.head, "closed"))
			for _, l := range it.lines {
				rest += " " + l
			}
			eq := strings.Index(rest, "=")
			if eq < 0 {
				return fmt.Errorf("%s:%d: closed <Interface> = T1, T2, ...", path, it.line)
			}
			ci := &ClosedIface{Name: strings.TrimSpace(rest[:eq]), Pkg: pkg, File: path, Line: it.line}
			for _, tn := range strings.Split(rest[eq+1:], ",") {
				ci.TypeNames = append(ci.TypeNames, strings.TrimSpace(tn))
			}
			w.closed = append(w.closed, ci)
		case "axiom":
			src := strings.TrimSpace(strings.TrimPrefix(it.head, "axiom"))
			for _, l := range it.lines {
				src += " " + l
			}
			x, err := parseSpec(src)
			if err != nil {
				return fmt.Errorf("%s:%d: %v", path, it.line, err)
			}
			w.axioms = append(w.axioms, Axiom{Expr: x, Src: src, Pkg: pkg})
		case "lemma":
			if pkg == nil {
				continue
			}
			if err := w.parseLemma(it, pkg); err != nil {
				return fmt.Errorf("%s:%d: %v", path, it.line, err)
			}
		case "table":
			// table <globalName> rows <type>
			f := strings.Fields(it.head)
			if len(f) == 4 && f[2] == "rows" && pkg != nil {
				w.tables[f[1]] = tableInfo{Name: f[1], RowType: f[3], Pkg: pkg}
			}
		}
	}
	return nil
}

func (w *World) lookupMethod(pkg *types.Package, recv, name string) (*types.Func, bool) {
	if recv == "" {
		if o, ok := pkg.Scope().Lookup(name).(*types.Func); ok {
			return o, false
		}
		return nil, false
	}
	var tn *types.TypeName
	if i := strings.LastIndex(recv, "."); i >= 0 {
		if p := w.pkgByName(recv[:i], pkg); p != nil {
			tn, _ = p.Scope().Lookup(recv[i+1:]).(*types.TypeName)
		}
	} else {
		tn, _ = pkg.Scope().Lookup(recv).(*types.TypeName)
	}
	if tn == nil {
		return nil, false
	}
	if it, ok := tn.Type().Underlying().(*types.Interface); ok {
		for i := 0; i < it.NumMethods(); i++ {
			if it.Method(i).Name() == name {
				return it.Method(i), true
			}
		}
		return nil, true
	}
	named, ok := tn.Type().(*types.Named)
	if !ok {
		return nil, false
	}
	for i := 0; i < named.NumMethods(); i++ {
		if named.Method(i).Name() == name {
			return named.Method(i), false
		}
	}
	return nil, false
}

func (w *World) parseFuncContract(it rawItem, pkg *types.Package, external bool) error {
	m := reFuncHead.FindStringSubmatch(it.head)
	if m == nil {
		return fmt.Errorf("cannot parse function header %q", it.head)
	}
	var ftags []string
	if m[1] != "" {
		ftags, _ = parseTags(m[1])
	}
	recv, name := m[5], m[7]
	tf, isIface := w.lookupMethod(pkg, recv, name)
	if tf == nil {
		w.missing = append(w.missing, fmt.Sprintf("%s:%d: contract for a function that does not exist: %s", it.file, it.line, it.head))
		return nil
	}
	c := &Contract{File: it.file, Line: it.line, Header: it.head, Pkg: pkg, TFn: tf, Tags: ftags, Loops: map[int]*LoopSpec{}, IterLoops: map[int]*LoopSpec{}, External: external, Trusted: external, Interface: isIface, Callbacks: map[string]*CallbackSpec{}}
	c.Sig = tf.Type().(*types.Signature)
	if isIface {
		c.Key = "invoke " + tf.FullName()
		c.Trusted = false
	} else {
		fn := w.prog.FuncValue(tf)
		if fn == nil {
			return fmt.Errorf("no SSA function for %s", tf.FullName())
		}
		c.Fn = fn
		c.Key = fn.String()
	}
	if r := c.Sig.Recv(); r != nil {
		n := r.Name()
		if hn := strings.TrimSpace(m[3]); hn != "" && (n == "" || n == "_" || isIface) {
			n = hn // the receiver name written in the contract header
		}
		if n == "" || n == "_" {
			n = "recv"
		}
		c.Params = append(c.Params, n)
		c.ParamTypes = append(c.ParamTypes, r.Type())
	}
	hdrNames := headerParamNames(it.head)
	for i := 0; i < c.Sig.Params().Len(); i++ {
		p := c.Sig.Params().At(i)
		n := p.Name()
		if (n == "" || n == "_") && isIface && i < len(hdrNames) && hdrNames[i] != "" {
			n = hdrNames[i] // an interface method declared without parameter names: the contract header names them
		}
		if n == "" || n == "_" {
			n = fmt.Sprintf("arg%d", i)
		}
		c.Params = append(c.Params, n)
		c.ParamTypes = append(c.ParamTypes, p.Type())
	}
	ord := map[string]int{}
	for _, ln := range it.lines {
		kw := startsWithKW(ln, clauseKW)
		rest := strings.TrimSpace(strings.TrimPrefix(ln, kw))
		switch kw {
		case "assumes":
			// an invariant of the surrounding system that is assumed inside the function and NOT checked at call sites
			// (listed as an unchecked assumption in the evidence)
			tags, src := parseTags(rest)
			x, err := parseSpec(src)
			if err != nil {
				return err
			}
			c.Assumes = append(c.Assumes, Clause{Tags: tags, Expr: x, Src: src, Ord: len(c.Assumes)})
		case "requires", "ensures", "ensures-on-panic":
			tags, src := parseTags(rest)
			tags, cname := splitTagNames(tags)
			x, err := parseSpec(src)
			if err != nil {
				return err
			}
			ctags := tags
			if len(ctags) == 0 {
				ctags = ftags
			}
			cl := Clause{Tags: ctags, Expr: x, Src: src, Ord: ord[kw], Name: cname}
			ord[kw]++
			switch kw {
			case "requires":
				c.Requires = append(c.Requires, cl)
			case "ensures":
				c.Ensures = append(c.Ensures, cl)
			default:
				c.EnsPanic = append(c.EnsPanic, cl)
			}
		case "modifies":
			c.HasModifies = true
			ents, all, err := parseModifies(rest)
			if err != nil {
				return err
			}
			c.Modifies = append(c.Modifies, ents...)
			c.ModAll = c.ModAll || all
		case "loop-call":
			i := strings.Index(rest, ":")
			if i < 0 {
				return fmt.Errorf("loop-call k: invariant ...")
			}
			k, err := strconv.Atoi(strings.TrimSpace(rest[:i]))
			if err != nil {
				return fmt.Errorf("loop-call ordinal: %v", err)
			}
			body := strings.TrimSpace(rest[i+1:])
			if !strings.HasPrefix(body, "invariant") {
				return fmt.Errorf("loop-call clause: expected invariant")
			}
			ls := c.IterLoops[k]
			if ls == nil {
				ls = &LoopSpec{}
				c.IterLoops[k] = ls
			}
			tags, src := parseTags(strings.TrimSpace(strings.TrimPrefix(body, "invariant")))
			x, err := parseSpec(src)
			if err != nil {
				return err
			}
			ls.Invs = append(ls.Invs, Clause{Tags: tags, Expr: x, Src: src, Ord: len(ls.Invs)})
		case "loop":
			// loop k: invariant e | loop k: decreases e
			i := strings.Index(rest, ":")
			if i < 0 {
				return fmt.Errorf("loop clause needs 'loop k: invariant ...'")
			}
			k, err := strconv.Atoi(strings.TrimSpace(rest[:i]))
			if err != nil {
				return fmt.Errorf("loop ordinal: %v", err)
			}
			body := strings.TrimSpace(rest[i+1:])
			ls := c.Loops[k]
			if ls == nil {
				ls = &LoopSpec{}
				c.Loops[k] = ls
			}
			if strings.HasPrefix(body, "invariant") {
				tags, src := parseTags(strings.TrimSpace(strings.TrimPrefix(body, "invariant")))
				tags, _ = splitTagNames(tags)
				x, err := parseSpec(src)
				if err != nil {
					return err
				}
				ls.Invs = append(ls.Invs, Clause{Tags: tags, Expr: x, Src: src, Ord: len(ls.Invs)})
			} else if strings.HasPrefix(body, "step") {
				// loop k: step e : proved at the end of every pass through the body (never assumed); at_head(x) inside e is
				// the value x had when the pass started. For accumulators: "each pass adds exactly ... to total".
				tags, src := parseTags(strings.TrimSpace(strings.TrimPrefix(body, "step")))
				tags, _ = splitTagNames(tags)
				x, err := parseSpec(src)
				if err != nil {
					return err
				}
				ls.Steps = append(ls.Steps, Clause{Tags: tags, Expr: x, Src: src, Ord: len(ls.Steps)})
			} else if strings.HasPrefix(body, "preserves") {
				ents, _, err := parseModifies(strings.TrimSpace(strings.TrimPrefix(body, "preserves")))
				if err != nil {
					return err
				}
				ls.Preserves = append(ls.Preserves, ents...)
			} else if strings.HasPrefix(body, "decreases") {
				src := strings.TrimSpace(strings.TrimPrefix(body, "decreases"))
				x, err := parseSpec(src)
				if err != nil {
					return err
				}
				ls.Decreases, ls.DecSrc = x, src
			} else {
				return fmt.Errorf("loop clause: expected invariant or decreases")
			}
		case "assert-at", "assume-at":
			// assert-at[tags] call <callee>[#k]: expr
			tags, r2 := parseTags(rest)
			tags, _ = splitTagNames(tags) // "C03:name": the name documents the clause, the key stays assert-at#<ordinal>
			r2 = strings.TrimSpace(strings.TrimPrefix(r2, "call"))
			i := strings.Index(r2, ":")
			if i < 0 {
				return fmt.Errorf("assert-at call <callee>[#k]: <expr>")
			}
			callee := strings.TrimSpace(r2[:i])
			k := -1
			if j := strings.Index(callee, "#"); j >= 0 {
				k, _ = strconv.Atoi(callee[j+1:])
				callee = callee[:j]
			}
			src := strings.TrimSpace(r2[i+1:])
			x, err := parseSpec(src)
			if err != nil {
				return err
			}
			atags := tags
			if len(atags) == 0 {
				atags = ftags
			}
			c.AssertAts = append(c.AssertAts, AssertAt{Callee: callee, Ord: k, Assume: kw == "assume-at", Clause: Clause{Tags: atags, Expr: x, Src: src, Ord: len(c.AssertAts)}})
		case "let":
			i := strings.Index(rest, "=")
			if i < 0 {
				return fmt.Errorf("let name = expr")
			}
			x, err := parseSpec(strings.TrimSpace(rest[i+1:]))
			if err != nil {
				return err
			}
			c.Lets = append(c.Lets, struct {
				Name string
				Expr SExpr
			}{strings.TrimSpace(rest[:i]), x})
		case "callback":
			// callback <param>(<names>) [returns (<names>)]: requires|ensures|modifies ...
			if err := parseCallback(c, rest); err != nil {
				return err
			}
		case "stable-types":
			for _, t := range strings.Split(rest, ",") {
				if t = strings.TrimSpace(t); t != "" {
					c.StableTypes = append(c.StableTypes, t)
				}
			}
		case "stable":
			ents, _, err := parseModifies(rest)
			if err != nil {
				return err
			}
			c.Stable = append(c.Stable, ents...)
		case "trusted":
			c.Trusted = true
		case "inline":
			c.Inline = true
		case "abstract-calls":
			c.AbstractCalls = true
		case "abstract-all":
			c.AbstractCalls = true
			c.AbstractAll = true
		case "may-panic":
			c.MayPanic = true
		case "allow-send":
			c.AllowSend = true
		case "noalloc":
			c.NoAlloc = true
		case "arith":
			c.Checked = strings.Contains(rest, "checked")
			c.Wrapping = strings.Contains(rest, "wrapping")
		case "call-inline":
			c.InlineCallees = append(c.InlineCallees, strings.Fields(rest)...)
		case "call-abstract":
			c.AbstractCallees = append(c.AbstractCallees, strings.Fields(rest)...)
		case "panics-at":
			// panics-at <callee patterns>: a call of the function under verification to one of these callees may PANIC
			// instead of returning; the panic unwinds through the deferred calls (recover() is modelled) and, if nobody
			// recovers, the function exits by panic: the ensures-on-panic clauses are proved there
			c.PanicsAt = append(c.PanicsAt, strings.Fields(rest)...)
		case "path-limit":
			c.PathLimit, _ = strconv.Atoi(rest)
		case "implements":
			c.ImplOf = rest
		default:
			return fmt.Errorf("unknown clause %q", ln)
		}
	}
	if old, dup := w.contracts[c.Key]; dup {
		return fmt.Errorf("duplicate contract for %s (also at %s:%d)", c.Key, old.File, old.Line)
	}
	w.contracts[c.Key] = c
	return nil
}

var reCallback = regexp.MustCompile(`^(\w+)\(([^)]*)\)\s*(returns\s*\(([^)]*)\))?\s*:\s*(requires|ensures|modifies)\s*(.*)$`)

func parseCallback(c *Contract, rest string) error {
	m := reCallback.FindStringSubmatch(rest)
	if m == nil {
		return fmt.Errorf("callback <param>(<args>) [returns (<names>)]: requires|ensures|modifies <...>")
	}
	cb := c.Callbacks[m[1]]
	if cb == nil {
		cb = &CallbackSpec{Param: m[1]}
		for _, n := range strings.Split(m[2], ",") {
			if n = strings.TrimSpace(n); n != "" {
				cb.Names = append(cb.Names, n)
			}
		}
		for _, n := range strings.Split(m[4], ",") {
			if n = strings.TrimSpace(n); n != "" {
				cb.Results = append(cb.Results, n)
			}
		}
		c.Callbacks[m[1]] = cb
	}
	switch m[5] {
	case "modifies":
		ents, all, err := parseModifies(m[6])
		if err != nil {
			return err
		}
		cb.Modifies = append(cb.Modifies, ents...)
		cb.ModAll = cb.ModAll || all
	default:
		tags, src := parseTags(m[6])
		x, err := parseSpec(src)
		if err != nil {
			return err
		}
		cl := Clause{Tags: tags, Expr: x, Src: src}
		if m[5] == "requires" {
			cl.Ord = len(cb.Requires)
			cb.Requires = append(cb.Requires, cl)
		} else {
			cl.Ord = len(cb.Ensures)
			cb.Ensures = append(cb.Ensures, cl)
		}
	}
	return nil
}

func splitTop(s string, sep byte) []string {
	var out []string
	depth := 0
	last := 0
	for i := 0; i < len(s); i++ {
		switch s[i] {
		case '(', '[':
			depth++
		case ')', ']':
			depth--
		default:
			if s[i] == sep && depth == 0 {
				out = append(out, s[last:i])
				last = i + 1
			}
		}
	}
	out = append(out, s[last:])
	return out
}

func parseModifies(rest string) ([]ModEntry, bool, error) {
	var out []ModEntry
	all := false
	for _, item := range splitTop(rest, ',') {
		item = strings.TrimSpace(item)
		switch {
		case item == "" || item == "nothing":
		case item == "*":
			all = true
		case strings.HasPrefix(item, "db(") && strings.HasSuffix(item, ")"):
			out = append(out, ModEntry{Kind: "db", Field: strings.TrimSpace(item[3 : len(item)-1]), Src: item})
		case strings.HasPrefix(item, "bt(") && strings.HasSuffix(item, ")"):
			x, err := parseSpec(item[3 : len(item)-1])
			if err != nil {
				return nil, false, err
			}
			out = append(out, ModEntry{Kind: "bt", Obj: x, Src: item})
		case strings.HasPrefix(item, "ghost "):
			out = append(out, ModEntry{Kind: "ghost", Field: strings.TrimSpace(item[6:]), Src: item})
		case strings.HasSuffix(item, "[*]"):
			x, err := parseSpec(item[:len(item)-3])
			if err != nil {
				return nil, false, err
			}
			out = append(out, ModEntry{Kind: "container", Obj: x, Src: item})
		case strings.Contains(item, "[*]."):
			i := strings.Index(item, "[*].")
			x, err := parseSpec(item[:i])
			if err != nil {
				return nil, false, err
			}
			out = append(out, ModEntry{Kind: "elemfield", Obj: x, Field: item[i+4:], Src: item})
		case strings.HasSuffix(item, ".*"):
			x, err := parseSpec(item[:len(item)-2])
			if err != nil {
				return nil, false, err
			}
			out = append(out, ModEntry{Kind: "object", Obj: x, Src: item})
		case strings.HasPrefix(item, "*"):
			x, err := parseSpec(item[1:])
			if err != nil {
				return nil, false, err
			}
			out = append(out, ModEntry{Kind: "pointee", Obj: x, Src: item})
		default:
			i := strings.LastIndex(item, ".")
			if i < 0 {
				return nil, false, fmt.Errorf("modifies item %q: expected obj.field, obj.*, m[*], s[*], s[*].f, *p, ghost g, nothing or *", item)
			}
			x, err := parseSpec(item[:i])
			if err != nil {
				return nil, false, err
			}
			out = append(out, ModEntry{Kind: "field", Obj: x, Field: item[i+1:], Src: item})
		}
	}
	return out, all, nil
}

var reSpecFunc = regexp.MustCompile(`^spec\s+func(\[[^\]]*\])?\s+(\w+)\s*\(([^)]*)\)\s*([\w.*\[\]]+)?\s*(=\s*(.*))?$`)

func parseParamList(s string) []QVar {
	var out []QVar
	var pending []string
	for _, part := range splitTop(s, ',') {
		f := strings.Fields(strings.TrimSpace(part))
		if len(f) == 0 {
			continue
		}
		if len(f) == 1 {
			pending = append(pending, f[0])
			continue
		}
		ty := strings.Join(f[1:], "")
		for _, p := range pending {
			out = append(out, QVar{p, ty})
		}
		pending = nil
		out = append(out, QVar{f[0], ty})
	}
	return out
}

func (w *World) parseSpecFunc(it rawItem, pkg *types.Package) error {
	head := it.head
	for _, l := range it.lines {
		head += " " + l
	}
	m := reSpecFunc.FindStringSubmatch(head)
	if m == nil {
		return fmt.Errorf("cannot parse spec func %q", head)
	}
	sf := &SpecFunc{Name: m[2], Params: parseParamList(m[3]), Result: m[4], Src: head, Pkg: pkg}
	if strings.Contains(m[1], "named") {
		sf.Named = true
	}
	if sf.Result == "" {
		sf.Result = "bool"
	}
	if m[6] != "" {
		x, err := parseSpec(m[6])
		if err != nil {
			return err
		}
		sf.Body = x
	}
	if _, dup := w.specFuncs[sf.Name]; dup {
		return fmt.Errorf("duplicate spec func %s", sf.Name)
	}
	w.specFuncs[sf.Name] = sf
	return nil
}

var reLemmaHead = regexp.MustCompile(`^lemma(\[[^\]]*\])?\s+(\w+)\s*\(([^)]*)\)`)
var reLemmaCall = regexp.MustCompile(`^(([\w, ]+?)\s*:=\s*)?([\w.*()]+)\((.*)\)$`)

func (w *World) parseLemma(it rawItem, pkg *types.Package) error {
	m := reLemmaHead.FindStringSubmatch(it.head)
	if m == nil {
		return fmt.Errorf("cannot parse lemma header %q", it.head)
	}
	lm := &Lemma{Name: m[2], Pkg: pkg, Params: parseParamList(m[3]), File: it.file}
	if m[1] != "" {
		lm.Tags, _ = parseTags(m[1])
	}
	for _, ln := range it.lines {
		kw := startsWithKW(ln, clauseKW)
		rest := strings.TrimSpace(strings.TrimPrefix(ln, kw))
		switch kw {
		case "requires", "assume":
			x, err := parseSpec(rest)
			if err != nil {
				return err
			}
			lm.Stmts = append(lm.Stmts, LemmaStmt{Kind: "assume", Expr: x, Src: rest})
		case "assert":
			tags, src := parseTags(rest)
			x, err := parseSpec(src)
			if err != nil {
				return err
			}
			lm.Stmts = append(lm.Stmts, LemmaStmt{Kind: "assert", Expr: x, Src: src, Tags: append(append([]string{}, lm.Tags...), tags...)})
		case "var":
			for _, q := range parseParamList(rest) {
				lm.Stmts = append(lm.Stmts, LemmaStmt{Kind: "var", Names: []string{q.Name}, Type: q.Type, Src: rest})
			}
		case "call":
			cm := reLemmaCall.FindStringSubmatch(rest)
			if cm == nil {
				return fmt.Errorf("lemma call: [names :=] callee(args)")
			}
			st := LemmaStmt{Kind: "call", Callee: cm[3], Src: rest}
			for _, n := range strings.Split(cm[2], ",") {
				if n = strings.TrimSpace(n); n != "" {
					st.Names = append(st.Names, n)
				}
			}
			for _, a := range splitTop(cm[4], ',') {
				if a = strings.TrimSpace(a); a != "" {
					x, err := parseSpec(a)
					if err != nil {
						return err
					}
					st.Args = append(st.Args, x)
				}
			}
			lm.Stmts = append(lm.Stmts, st)
		default:
			return fmt.Errorf("lemma %s: unknown statement %q", lm.Name, ln)
		}
	}
	w.lemmas = append(w.lemmas, lm)
	return nil
}

// load every contract file: zz_contracts_verif.go in loaded /repo packages, and /verif/contracts/*.spec
func (w *World) loadContracts(verifDir string) error {
	var paths []string
	for p := range w.byPath {
		paths = append(paths, p)
	}
	sort.Strings(paths)
	for _, p := range paths {
		pk := w.byPath[p]
		if !strings.HasPrefix(p, "github.com/yorkie-team/yorkie") {
			continue
		}
		dirs := map[string]bool{}
		for _, f := range pk.GoFiles {
			dirs[filepath.Dir(f)] = true
		}
		for d := range dirs {
			fn := filepath.Join(d, "zz_contracts_verif.go")
			src := fn
			if ov, ok := w.overlay[fn]; ok {
				tmp, _ := os.CreateTemp("", "ov*.go")
				tmp.Write(ov)
				tmp.Close()
				src = tmp.Name()
				defer os.Remove(tmp.Name())
			} else if _, err := os.Stat(fn); err != nil {
				continue
			}
			if err := w.loadContractFile(src, pk.Types, true); err != nil {
				return err
			}
			w.contractFiles = append(w.contractFiles, fn)
		}
	}
	if err := w.resolveImplements(); err != nil {
		return err
	}
	specs, _ := filepath.Glob(filepath.Join(verifDir, "contracts", "*.spec"))
	sort.Strings(specs)
	for _, sp := range specs {
		if err := w.loadContractFile(sp, nil, false); err != nil {
			return err
		}
	}
	return nil
}

// "implements <Interface>": the method is verified against the contract of the interface method of the same name
// (its requires / ensures / modifies / lets are prepended); parameters correspond by position.
func (w *World) resolveImplements() error {
	for _, k := range sortedKeys(w.contracts) {
		c := w.contracts[k]
		if c.ImplOf == "" {
			continue
		}
		tf, isIface := w.lookupMethod(c.Pkg, c.ImplOf, c.TFn.Name())
		if tf == nil || !isIface {
			return fmt.Errorf("%s:%d: implements %s: no such interface method %s", c.File, c.Line, c.ImplOf, c.TFn.Name())
		}
		ic := w.contracts["invoke "+tf.FullName()]
		if ic == nil {
			return fmt.Errorf("%s:%d: implements %s: the interface method %s has no contract", c.File, c.Line, c.ImplOf, tf.FullName())
		}
		c.ImplContract = ic
		c.Requires = append(append([]Clause{}, ic.Requires...), renumber(c.Requires, len(ic.Requires))...)
		c.Assumes = append(append([]Clause{}, ic.Assumes...), c.Assumes...)
		c.Ensures = append(append([]Clause{}, ic.Ensures...), renumber(c.Ensures, len(ic.Ensures))...)
		c.Modifies = append(append([]ModEntry{}, ic.Modifies...), c.Modifies...)
		c.ModAll = c.ModAll || ic.ModAll
		c.HasModifies = c.HasModifies || ic.HasModifies
		c.Lets = append(append(c.Lets[:0:0], ic.Lets...), c.Lets...)
		c.Checked = c.Checked || ic.Checked
		for _, t := range ic.Tags {
			if !hasTag(c.Tags, t) {
				c.Tags = append(c.Tags, t)
			}
		}
		// the interface contract's receiver name denotes the receiver AS A VALUE OF THE INTERFACE TYPE
		if ic.Sig.Recv() != nil && len(ic.Params) > 0 && c.Sig.Recv() != nil {
			c.IfaceRecvName = ic.Params[0]
			c.IfaceRecvType = ic.ParamTypes[0]
		}
		// positional parameter aliases: interface names for the implementation's parameters
		c.ParamAliases = map[string]int{}
		off := 0
		if c.Sig.Recv() != nil {
			off = 1
		}
		ioff := 0
		if ic.Sig.Recv() != nil {
			ioff = 1
		}
		for i := ioff; i < len(ic.Params); i++ {
			j := i - ioff + off
			if j < len(c.Params) && ic.Params[i] != c.Params[j] {
				c.ParamAliases[ic.Params[i]] = j
			}
		}
	}
	return nil
}

func renumber(cs []Clause, base int) []Clause {
	out := make([]Clause, len(cs))
	for i, c := range cs {
		c.Ord = base + i
		out[i] = c
	}
	return out
}

// Immutable: a declared write-once field
type Immutable struct {
	Pkg         *types.Package
	Type, Field string
	File        string
	Line        int
	Fam         string
}

// checkImmutables: every declared field must be unexported, and every store to it anywhere in its package must go
// through an object allocated in the same function (composite literal / new): then no call can change the field of an
// object that already existed. Returns the violations.
func (w *World) checkImmutables() []string {
	var bad []string
	for i := range w.immutables {
		im := &w.immutables[i]
		t := w.resolveType(im.Type, im.Pkg)
		if t == nil {
			bad = append(bad, fmt.Sprintf("%s:%d: immutable: unknown type %s", im.File, im.Line, im.Type))
			continue
		}
		st, ok := t.Underlying().(*types.Struct)
		if !ok {
			bad = append(bad, fmt.Sprintf("%s:%d: immutable: %s is not a struct", im.File, im.Line, im.Type))
			continue
		}
		idx := -1
		for k := 0; k < st.NumFields(); k++ {
			if st.Field(k).Name() == im.Field {
				idx = k
			}
		}
		if idx < 0 {
			bad = append(bad, fmt.Sprintf("%s:%d: immutable: no field %s.%s", im.File, im.Line, im.Type, im.Field))
			continue
		}
		if st.Field(idx).Exported() {
			bad = append(bad, fmt.Sprintf("%s:%d: immutable: %s.%s is exported (other packages may write it)", im.File, im.Line, im.Type, im.Field))
			continue
		}
		im.Fam = structFam(t, im.Field)
		sp := w.prog.Package(im.Pkg)
		if sp == nil {
			bad = append(bad, fmt.Sprintf("%s:%d: immutable: package not built", im.File, im.Line))
			continue
		}
		var fns []*ssa.Function
		seen := map[*ssa.Function]bool{}
		var addFn func(f *ssa.Function)
		addFn = func(f *ssa.Function) {
			if f == nil || seen[f] {
				return
			}
			seen[f] = true
			fns = append(fns, f)
			for _, an := range f.AnonFuncs {
				addFn(an)
			}
		}
		for _, m := range sp.Members {
			switch x := m.(type) {
			case *ssa.Function:
				addFn(x)
			case *ssa.Type:
				for _, tt := range []types.Type{x.Type(), types.NewPointer(x.Type())} {
					ms := w.prog.MethodSets.MethodSet(tt)
					for k := 0; k < ms.Len(); k++ {
						if mf, ok := ms.At(k).Obj().(*types.Func); ok {
							addFn(w.prog.FuncValue(mf))
						}
					}
				}
			}
		}
		for _, f := range fns {
			if f.Pkg != sp {
				continue
			}
			for _, b := range f.Blocks {
				for _, ins := range b.Instrs {
					fa, ok := ins.(*ssa.FieldAddr)
					if !ok || fa.Field != idx {
						continue
					}
					pt, ok := fa.X.Type().Underlying().(*types.Pointer)
					if !ok || !types.Identical(pt.Elem(), t) {
						continue
					}
					if fa.Referrers() == nil {
						continue
					}
					for _, r := range *fa.Referrers() {
						stn, ok := r.(*ssa.Store)
						if !ok || stn.Addr != fa {
							if _, isLoad := r.(*ssa.UnOp); isLoad {
								continue
							}
							if _, isDbg := r.(*ssa.DebugRef); isDbg {
								continue
							}
							if _, isFA := r.(*ssa.FieldAddr); isFA {
								continue // address of a sub-field: only for struct-typed fields; reject below if stored through
							}
							bad = append(bad, fmt.Sprintf("%s: immutable %s.%s: its address escapes in %s", w.fset.Position(r.Pos()), im.Type, im.Field, f))
							continue
						}
						if al, ok := fa.X.(*ssa.Alloc); ok && al.Parent() == f {
							continue // initialisation of an object allocated right here
						}
						bad = append(bad, fmt.Sprintf("%s: immutable %s.%s is assigned in %s", w.fset.Position(stn.Pos()), im.Type, im.Field, f))
					}
				}
			}
		}
	}
	return bad
}

// ClosedIface: an interface whose implementing types are enumerated (closed-world dispatch)
type ClosedIface struct {
	Name      string
	Pkg       *types.Package
	TypeNames []string
	Types     []types.Type
	Iface     types.Type
	File      string
	Line      int
}

func (w *World) closedFor(t types.Type) *ClosedIface {
	for _, c := range w.closed {
		if c.Iface != nil && types.Identical(c.Iface, t) {
			return c
		}
	}
	return nil
}

// checkClosed resolves the declarations and verifies completeness: every named type of every loaded yorkie package whose
// pointer or value implements the interface must be listed.
func (w *World) checkClosed() []string {
	var bad []string
	for _, c := range w.closed {
		it := w.resolveType(c.Name, c.Pkg)
		if it == nil {
			bad = append(bad, fmt.Sprintf("%s:%d: closed: unknown interface %s", c.File, c.Line, c.Name))
			continue
		}
		iface, ok := it.Underlying().(*types.Interface)
		if !ok {
			bad = append(bad, fmt.Sprintf("%s:%d: closed: %s is not an interface", c.File, c.Line, c.Name))
			continue
		}
		c.Iface = it
		listed := map[string]bool{}
		c.Types = nil
		for _, tn := range c.TypeNames {
			t := w.resolveType(tn, c.Pkg)
			if t == nil {
				bad = append(bad, fmt.Sprintf("%s:%d: closed %s: unknown type %s", c.File, c.Line, c.Name, tn))
				continue
			}
			if !types.Implements(t, iface) {
				bad = append(bad, fmt.Sprintf("%s:%d: closed %s: %s does not implement it", c.File, c.Line, c.Name, tn))
				continue
			}
			c.Types = append(c.Types, t)
			listed[t.String()] = true
		}
		for _, p := range w.byPath {
			if !strings.HasPrefix(p.Types.Path(), "github.com/yorkie-team/yorkie") {
				continue
			}
			sc := p.Types.Scope()
			for _, n := range sc.Names() {
				tn, ok := sc.Lookup(n).(*types.TypeName)
				if !ok || tn.IsAlias() {
					continue
				}
				nt, ok := tn.Type().(*types.Named)
				if !ok || nt.TypeParams().Len() > 0 {
					continue
				}
				if _, isI := nt.Underlying().(*types.Interface); isI {
					continue
				}
				for _, cand := range []types.Type{nt, types.NewPointer(nt)} {
					if types.Implements(cand, iface) && !listed[cand.String()] {
						if _, isPtr := cand.(*types.Pointer); !isPtr && listed[types.NewPointer(nt).String()] {
							continue
						}
						if _, isPtr := cand.(*types.Pointer); isPtr && types.Implements(nt, iface) {
							continue // the value type implements it too and is reported itself
						}
						bad = append(bad, fmt.Sprintf("%s:%d: closed %s: %s implements it but is not listed", c.File, c.Line, c.Name, cand))
					}
				}
			}
		}
	}
	return bad
}

// headerParamNames: the parameter names written in a contract header "func[tags] (recv T) Name(a A, b B) R"
func headerParamNames(head string) []string {
	// skip the receiver group if any
	h := head
	if i := strings.Index(h, "]"); i >= 0 && strings.HasPrefix(strings.TrimSpace(h), "func[") {
		h = h[i+1:]
	} else {
		h = strings.TrimPrefix(strings.TrimSpace(h), "func")
	}
	h = strings.TrimSpace(h)
	if strings.HasPrefix(h, "(") {
		depth := 0
		for i, ch := range h {
			if ch == '(' {
				depth++
			} else if ch == ')' {
				depth--
				if depth == 0 {
					h = h[i+1:]
					break
				}
			}
		}
	}
	i := strings.Index(h, "(")
	if i < 0 {
		return nil
	}
	depth, start := 0, i+1
	var params []string
	for j := i; j < len(h); j++ {
		switch h[j] {
		case '(', '[':
			depth++
		case ')', ']':
			depth--
			if depth == 0 {
				params = append(params, h[start:j])
				j = len(h)
			}
		case ',':
			if depth == 1 {
				params = append(params, h[start:j])
				start = j + 1
			}
		}
	}
	var names []string
	for _, p := range params {
		f := strings.Fields(strings.TrimSpace(p))
		if len(f) >= 2 {
			names = append(names, f[0])
		} else {
			names = append(names, "")
		}
	}
	return names
}
