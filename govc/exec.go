// exec.go: path-wise symbolic execution of NaiveForm go/ssa.
package main

import (
	"fmt"
	"go/constant"
	"go/token"
	"go/types"
	"sort"
	"strings"

	"golang.org/x/tools/go/ssa"
)

type Oblig struct {
	Key    string // path-independent key: <func>/<kind>#<ord>
	Kind   string
	Tags   []string
	Func   string
	Pre    []string
	Goal   string
	Path   int
	Pos    string
	Desc   string
	Canary bool // vacuity guard: expected NOT to be unsat
	Trace  []string
}

type frame struct {
	ret    func(s *State, res []Val)
	fn     *ssa.Function
	defers int // defer stack height at entry
}

type Exec struct {
	unwinding []unwindPoint // deferred calls being run while a panic unwinds (innermost last)
	headState map[*ssa.BasicBlock]*State // loop head -> state at the start of the pass under execution (for step clauses)
	w          *World
	fn         *ssa.Function
	con        *Contract
	frames     []frame
	decls      []string
	declSet    map[string]bool
	fresh      int
	obls       []Oblig
	loopIdx    map[*ssa.BasicBlock]loopRef
	inLoopBody map[*ssa.BasicBlock]bool
	entry      *State
	iterN      int
	paths      int
	globals    map[string]Val
	fams       map[string]famSig
	written    map[string]bool
	closures   map[string]ClosureV
	funcvals   map[string]FuncV
	localAddrs map[string]LocalAddr
	strlits    map[string]string
	callStats  map[string]map[string]int // treatment -> callee -> count
	usedContracts map[string]bool
	havocAllUsed bool
	errors     []string
	curPos     token.Pos
	stepBudget int
	lets       map[string]TV
	curLoop    *loopCtx
	pathLimit  int
	checked    bool // arith checked
	entryVars  map[string]TV
	inSpecInline int
	errGlobals []string
	quietLoads int
	declOwner  map[string]string
	decAtHead  map[*ssa.BasicBlock]string
	axiomTerms []axiomTerm
	axiomNames map[string]bool
	curCallSig *types.Signature
	name       string
	curBlock   *ssa.BasicBlock
	famBirth   map[string]string // family version symbol -> $alloc symbol current when the version was created
	epochAlloc map[int]string
	specHook   func(term, famSym, container string)
	curBinders []string
	vacSeq     int
	loopEntry  map[int]*State
	itTable    map[string]itInfo
	havocRecs  map[int]havocRec
	stableLocs map[string][]string
	stablePrefixes []string
	pinEpoch   int
	macros     map[string]bool
	loopEffects map[*ssa.BasicBlock]*effects
	entryMods  *modSet
	loopSets   map[*ssa.BasicBlock]map[*ssa.BasicBlock]bool
	usedSpecFuncs map[string]bool
	namedPreds map[string]string
}

type loopRef struct {
	fn  *ssa.Function
	idx int
}

func newExec(w *World, fn *ssa.Function, con *Contract) *Exec {
	e := &Exec{w: w, fn: fn, con: con, declSet: map[string]bool{}, loopIdx: map[*ssa.BasicBlock]loopRef{}, inLoopBody: map[*ssa.BasicBlock]bool{},
		globals: map[string]Val{}, fams: map[string]famSig{}, written: map[string]bool{}, closures: map[string]ClosureV{}, funcvals: map[string]FuncV{},
		localAddrs: map[string]LocalAddr{}, strlits: map[string]string{}, callStats: map[string]map[string]int{}, usedContracts: map[string]bool{},
		lets: map[string]TV{}, stepBudget: 4000000, pathLimit: 6000,
		declOwner: map[string]string{}, decAtHead: map[*ssa.BasicBlock]string{}, havocRecs: map[int]havocRec{}, itTable: map[string]itInfo{}, loopEntry: map[int]*State{}, famBirth: map[string]string{}, epochAlloc: map[int]string{0: "|$alloc@e0|"}, macros: map[string]bool{}, loopEffects: map[*ssa.BasicBlock]*effects{}, loopSets: map[*ssa.BasicBlock]map[*ssa.BasicBlock]bool{}, usedSpecFuncs: map[string]bool{}, namedPreds: map[string]string{}}
	e.decl("(declare-sort Ref 0)")
	e.decl("(declare-const null Ref)")
	for _, im := range w.immutables {
		if im.Fam != "" {
			e.stablePrefixes = append(e.stablePrefixes, im.Fam)
		}
	}
	return e
}

func (e *Exec) decl(d string) {
	if !e.declSet[d] {
		e.declSet[d] = true
		e.decls = append(e.decls, d)
	}
}

func (e *Exec) freshName(p string) string { e.fresh++; return fmt.Sprintf("%s!%d", p, e.fresh) }

func (e *Exec) declSort(s string) {
	if s != "Int" && s != "Bool" && s != "Ref" {
		e.decl(fmt.Sprintf("(declare-sort %s 0)", s))
		if strings.HasPrefix(s, "U_") || strings.HasPrefix(s, "Arr") || s == "Str" || s == "Float" || strings.HasPrefix(s, "TP_") {
			e.decl(fmt.Sprintf("(declare-const |zero_%s| %s)", s, s))
		}
	}
}

func (e *Exec) note(kind, callee string) {
	if e.callStats[kind] == nil {
		e.callStats[kind] = map[string]int{}
	}
	e.callStats[kind][callee]++
}

func (e *Exec) errorf(f string, a ...interface{}) {
	msg := fmt.Sprintf(f, a...)
	for _, x := range e.errors {
		if x == msg {
			return
		}
	}
	e.errors = append(e.errors, msg)
}

type execAbort struct{ msg string }

func (e *Exec) abort(f string, a ...interface{}) {
	panic(execAbort{fmt.Sprintf(f, a...)})
}

func (e *Exec) posStr(p token.Pos) string {
	if !p.IsValid() {
		p = e.curPos
	}
	if !p.IsValid() {
		return ""
	}
	pos := e.w.fset.Position(p)
	fn := pos.Filename
	if i := strings.Index(fn, "/repo/"); i >= 0 {
		fn = fn[i+6:]
	}
	return fmt.Sprintf("%s:%d", fn, pos.Line)
}

// fresh symbolic value of a Go type; type facts are assumed in s
func (e *Exec) symbolic(s *State, t types.Type, hint string) Val {
	v := e.assemble(t, "", func(path, so string) string {
		e.declSort(so)
		n := e.freshName(sanitize(hint + path))
		e.decl(fmt.Sprintf("(declare-const |%s| %s)", n, so))
		return "|" + n + "|"
	})
	if s != nil {
		e.wellTyped(s, t, v)
	}
	return v
}

func (e *Exec) symbolicQuiet(t types.Type) Val {
	return e.assemble(t, "", func(path, so string) string { return "_" })
}

// type facts of a value: integer ranges, slice header sanity, interface nil-ness, refs null-or-allocated
func (e *Exec) wellTyped(s *State, t types.Type, v Val) {
	switch u := t.Underlying().(type) {
	case *types.Struct:
		for i := 0; i < u.NumFields(); i++ {
			e.wellTyped(s, u.Field(i).Type(), v.(*Agg).F[i])
		}
	case *types.Slice:
		sv := v.(SliceV)
		s.assume("(and (>= %s 0) (>= %s 0) (<= %s %s) (<= (+ %s %s) 1152921504606846976))", sv.Off, sv.Len, sv.Len, sv.Cap, sv.Off, sv.Cap)
		s.assume("(or (= %s null) %s)", sv.Arr, e.isAlloc(s, sv.Arr))
		s.assume("(=> (= %s null) (and (= %s 0) (= %s 0)))", sv.Arr, sv.Len, sv.Cap)
	case *types.Interface:
		a := v.(*Agg)
		tag, ref := a.F[0].(Scalar).T, a.F[1].(Scalar).T
		s.assume("(and (>= %s 0) (=> (= %s 0) (= %s null)))", tag, tag, ref)
		s.assume("(or (= %s null) %s)", ref, e.isAlloc(s, ref))
	case *types.Basic:
		if lo, hi, ok := intRange(u); ok {
			if sc, ok := v.(Scalar); ok {
				s.assume("(and (<= %s %s) (<= %s %s))", lo, sc.T, sc.T, hi)
			}
		}
	case *types.Pointer, *types.Map, *types.Signature, *types.Chan:
		if sc, ok := v.(Scalar); ok {
			s.assume("(or (= %s null) %s)", sc.T, e.isAlloc(s, sc.T))
		}
	}
}

func (e *Exec) strLit(v string) string {
	if n, ok := e.strlits[v]; ok {
		return n
	}
	e.declSort("Str")
	n := fmt.Sprintf("|str#%d_%s|", len(e.strlits), sanitize(v))
	if len(n) > 48 {
		n = n[:46] + "|"
	}
	if v == "" {
		n = "|zero_Str|"
	} else {
		e.decl(fmt.Sprintf("(declare-const %s Str)", n))
	}
	e.strlits[v] = n
	e.decl("(declare-fun |str.len| (Str) Int)")
	e.declOwned(n, fmt.Sprintf("(assert (= (|str.len| %s) %d))", n, len(v)))
	return n
}

func (e *Exec) constVal(s *State, c *ssa.Const) Val {
	if c.Value == nil {
		return zero(c.Type())
	}
	switch c.Value.Kind() {
	case constant.Int:
		if sortOf(c.Type()) != "Int" {
			break
		}
		x := c.Value.ExactString()
		if strings.HasPrefix(x, "-") {
			return S("(- %s)", x[1:])
		}
		return S("%s", x)
	case constant.Bool:
		return S("%v", constant.BoolVal(c.Value))
	case constant.String:
		return S("%s", e.strLit(constant.StringVal(c.Value)))
	}
	// float and other constants: a named uninterpreted constant per literal
	so := sortOf(c.Type())
	e.declSort(so)
	n := "|const_" + sanitize(c.Value.ExactString()) + "_" + so + "|"
	e.decl(fmt.Sprintf("(declare-const %s %s)", n, so))
	return S("%s", n)
}

func (e *Exec) val(s *State, v ssa.Value) Val {
	switch c := v.(type) {
	case *ssa.Const:
		return e.constVal(s, c)
	case *ssa.Global:
		return GlobalAddr{Name: c.Pkg.Pkg.Path() + "." + c.Name(), G: c}
	case *ssa.Function:
		return FuncV{Fn: c}
	case *ssa.Builtin:
		return nil
	}
	if r, ok := s.regs[v]; ok {
		return r
	}
	e.abort("no value for %s = %s in %s", v.Name(), v, e.fn)
	return nil
}

func (e *Exec) sc(s *State, v ssa.Value) string {
	x := e.val(s, v)
	if scv, ok := x.(Scalar); ok {
		return scv.T
	}
	return e.scalarOf(x).T
}

// ---------- obligations ----------

func (e *Exec) obligeK(kind, ord string, tags []string, s *State, goal, desc string) {
	if goal == "true" {
		return
	}
	fname := e.name
	if e.fn != nil {
		fname = e.fn.String()
	}
	key := fmt.Sprintf("%s/%s", shortFunc(fname), kind)
	if ord != "" {
		key += "#" + ord
	}
	e.obls = append(e.obls, Oblig{Key: key, Kind: kind, Tags: tags, Func: fname, Pre: append([]string{}, s.pc...), Goal: goal, Path: e.paths, Pos: e.posStr(token.NoPos), Desc: desc, Trace: append([]string{}, s.trace...)})
}

func (e *Exec) fname() string {
	if e.fn != nil {
		return e.fn.String()
	}
	return e.name
}

func (e *Exec) safety(kind string, s *State, goal string) {
	if e.inSpecInline > 0 {
		return
	}
	e.obligeK("safety/"+kind, "", nil, s, goal, kind+" at "+e.posStr(token.NoPos))
}

func shortFunc(f string) string {
	return strings.ReplaceAll(f, "github.com/yorkie-team/yorkie/", "")
}

// ---------- memory ----------

func (e *Exec) loadLeaf(s *State, term, so string) string {
	if so == "Ref" {
		// heap invariant: stored references are null or allocated
		s.assume("(or (= %s null) %s)", term, e.isAlloc(s, term))
	}
	return term
}

func (e *Exec) load(s *State, addr Val, t types.Type) Val {
	switch a := addr.(type) {
	case LocalAddr:
		v, ok := s.cells[a.A]
		if !ok {
			e.abort("load from dead cell %s", a.A.Comment)
		}
		for _, i := range a.Path {
			v = v.(*Agg).F[i]
		}
		return v
	case ElemAddr:
		v := e.assemble(t, a.Key, func(p, so string) string {
			return e.read(s, p, []string{"Ref", "Int"}, so, a.Arr, a.Idx)
		})
		e.loadFacts(s, t, v)
		return v
	case HeapAddr:
		v := e.assemble(t, a.Key, func(p, so string) string {
			return e.read(s, p, []string{"Ref"}, so, a.Ref)
		})
		e.loadFacts(s, t, v)
		return v
	case Scalar: // raw pointer value: pointee families by pointee type (struct: "T.f", else "ptr_T")
		if la, ok := e.localAddrs[a.T]; ok {
			return e.load(s, la, t)
		}
		key := pointeeKey(t)
		v := e.assemble(t, key, func(p, so string) string {
			return e.read(s, p, []string{"Ref"}, so, a.T)
		})
		e.loadFacts(s, t, v)
		return v
	case ArrPtr:
		// the value of a whole fixed-size array is an opaque term (sort ArrN_T): loading it from an indexed local array yields
		// an unknown value of that sort - an over-approximation (the relation to the elements is not modelled)
		e.note("model-imprecision", "load of a whole fixed-size array: value unknown")
		return e.symbolic(s, t, "arrval")
	case GlobalAddr:
		if v, ok := e.globals[a.Name]; ok {
			return v
		}
		// package-level variables: one symbolic value per run (assumed not reassigned during the call)
		v := e.assemble(t, "", func(path, so string) string {
			e.declSort(so)
			n := "|glob_" + sanitize(a.Name+path) + "|"
			e.decl(fmt.Sprintf("(declare-const %s %s)", n, so))
			return n
		})
		e.globals[a.Name] = v
		e.globalFacts(a, t, v)
		return v
	}
	e.abort("load from %T", addr)
	return nil
}

// facts about package-level variables: exported error sentinels are non-nil and pairwise distinct
func (e *Exec) globalFacts(a GlobalAddr, t types.Type, v Val) {
	if isErrorIface(t) {
		ag := v.(*Agg)
		e.declOwned(ag.F[1].(Scalar).T, fmt.Sprintf("(assert (and (not (= %s 0)) (not (= %s null))))", ag.F[0].(Scalar).T, ag.F[1].(Scalar).T))
		e.errGlobals = append(e.errGlobals, ag.F[1].(Scalar).T)
	}
	e.wellTypedGlobal(t, v)
}

func (e *Exec) wellTypedGlobal(t types.Type, v Val) {
	tmp := newState()
	e.wellTyped(tmp, t, v)
	for _, f := range tmp.pc {
		if !strings.Contains(f, "$alloc") {
			e.decl("(assert " + f + ")")
		}
	}
}

func (e *Exec) loadFacts(s *State, t types.Type, v Val) {
	if e.quietLoads > 0 {
		return
	}
	switch u := t.Underlying().(type) {
	case *types.Struct:
		for i := 0; i < u.NumFields(); i++ {
			e.loadFacts(s, u.Field(i).Type(), v.(*Agg).F[i])
		}
	default:
		e.wellTyped(s, t, v)
	}
}

func (e *Exec) store(s *State, addr Val, v Val, t types.Type) {
	if _, local := addr.(LocalAddr); !local {
		e.escape(s, v) // written into the heap: reachable by others from now on
	}
	switch a := addr.(type) {
	case LocalAddr:
		if len(a.Path) == 0 {
			s.cells[a.A] = cloneVal(v)
			return
		}
		cur := s.cells[a.A].(*Agg)
		for _, i := range a.Path[:len(a.Path)-1] {
			cur = cur.F[i].(*Agg)
		}
		cur.F[a.Path[len(a.Path)-1]] = cloneVal(v)
	case ElemAddr:
		e.disassemble(t, a.Key, v, func(p, so, term string) {
			e.hwrite(s, p, []string{"Ref", "Int"}, so, []string{a.Arr, a.Idx}, term)
		})
	case HeapAddr:
		e.disassemble(t, a.Key, v, func(p, so, term string) {
			e.hwrite(s, p, []string{"Ref"}, so, []string{a.Ref}, term)
		})
	case Scalar:
		if la, ok := e.localAddrs[a.T]; ok {
			e.store(s, la, v, t)
			return
		}
		key := pointeeKey(t)
		e.disassemble(t, key, v, func(p, so, term string) {
			e.hwrite(s, p, []string{"Ref"}, so, []string{a.T}, term)
		})
	case GlobalAddr:
		e.globals[a.Name] = v
	default:
		e.abort("store to %T", addr)
	}
}

// ---------- control ----------

func (e *Exec) run(s *State, b *ssa.BasicBlock, depth int) {
	if depth > 900 {
		e.abort("execution depth exceeded in %s", e.fn)
	}
	if lr, ok := e.loopIdx[b]; ok {
		e.atLoopHead(s, b, lr, depth)
		return
	}
	e.blockFrom(s, b, 0, depth)
}

func (e *Exec) endPath() {
	e.paths++
	if e.paths > e.pathLimit {
		e.abort("path limit %d exceeded in %s", e.pathLimit, e.fn)
	}
}

// does the address of this heap Alloc escape as a value (stored, returned, boxed)? then it is a heap object
func allocIsObject(a *ssa.Alloc) bool {
	if !a.Heap {
		return false
	}
	if _, isArr := a.Type().(*types.Pointer).Elem().Underlying().(*types.Array); isArr {
		return false
	}
	if a.Comment == "complit" || a.Comment == "new" {
		return true
	}
	return addrEscapes(a, 0)
}

// is a fixed-size array alloc used element-wise (then it is an array object) or only as a whole value (opaque cell)?
func arrayIndexed(a *ssa.Alloc) bool {
	if a.Comment == "varargs" {
		return true
	}
	if refs := a.Referrers(); refs != nil {
		for _, r := range *refs {
			switch r.(type) {
			case *ssa.IndexAddr, *ssa.Slice:
				return true
			}
		}
	}
	return false
}

func addrEscapes(v ssa.Value, depth int) bool {
	refs := v.Referrers()
	if refs == nil {
		return true
	}
	for _, r := range *refs {
		switch x := r.(type) {
		case *ssa.Store:
			if x.Val == v {
				return true
			}
		case *ssa.UnOp, *ssa.DebugRef:
		case *ssa.FieldAddr:
			if depth < 4 && addrEscapes(x, depth+1) {
				return true
			}
		case *ssa.IndexAddr:
			if depth < 4 && addrEscapes(x, depth+1) {
				return true
			}
		case *ssa.Call, *ssa.Defer, *ssa.Go:
			// passed as an argument: the executor follows it into inlined / contracted callees
		case *ssa.MakeClosure:
			// captured by reference: closure bodies are executed with the binding
		case *ssa.Slice:
		default:
			return true
		}
	}
	return false
}

func (e *Exec) blockFrom(s *State, b *ssa.BasicBlock, from int, depth int) {
	for idx := from; idx < len(b.Instrs); idx++ {
		ins := b.Instrs[idx]
		e.curBlock = b
		e.stepBudget--
		if e.stepBudget < 0 {
			e.abort("step budget exceeded in %s", e.fn)
		}
		if p := ins.Pos(); p.IsValid() {
			e.curPos = p
		}
		switch x := ins.(type) {
		case *ssa.Alloc:
			et := x.Type().(*types.Pointer).Elem()
			if at, ok := et.Underlying().(*types.Array); ok && arrayIndexed(x) {
				arr := e.freshRef(s, "arr")
				s.regs[x] = ArrPtr{Arr: arr, Len: at.Len()}
				// zero-initialised
				e.zeroArray(s, arr, at)
			} else if allocIsObject(x) {
				r := e.freshRef(s, "obj_"+sanitize(x.Comment))
				s.regs[x] = S("%s", r)
				e.store(s, S("%s", r), zero(et), et)
			} else {
				s.cells[x] = zero(et)
				s.regs[x] = LocalAddr{A: x}
			}
		case *ssa.Store:
			e.store(s, e.val(s, x.Addr), e.val(s, x.Val), x.Val.Type())
		case *ssa.UnOp:
			switch x.Op {
			case token.MUL:
				addr := e.val(s, x.X)
				if sc, ok := addr.(Scalar); ok {
					if _, isLocal := e.localAddrs[sc.T]; !isLocal {
						e.safety("nil", s, fmt.Sprintf("(not (= %s null))", sc.T))
					}
				}
				s.regs[x] = e.load(s, addr, x.Type())
			case token.NOT:
				s.regs[x] = S("(not %s)", e.sc(s, x.X))
			case token.SUB:
				if sortOf(x.Type()) == "Int" {
					s.regs[x] = S("(- %s)", e.sc(s, x.X))
				} else {
					s.regs[x] = e.symbolic(s, x.Type(), "neg")
				}
			case token.XOR:
				s.regs[x] = S("(- (- %s) 1)", e.sc(s, x.X))
			case token.ARROW:
				e.abort("outside subset: channel receive")
			default:
				e.abort("unop %s", x.Op)
			}
		case *ssa.BinOp:
			s.regs[x] = e.binop(s, x)
		case *ssa.FieldAddr:
			base := e.val(s, x.X)
			st := x.X.Type().Underlying().(*types.Pointer).Elem()
			fld := st.Underlying().(*types.Struct).Field(x.Field)
			switch bv := base.(type) {
			case LocalAddr:
				s.regs[x] = LocalAddr{A: bv.A, Path: append(append([]int{}, bv.Path...), x.Field)}
			case Scalar:
				if la, ok := e.localAddrs[bv.T]; ok {
					s.regs[x] = LocalAddr{A: la.A, Path: append(append([]int{}, la.Path...), x.Field)}
					break
				}
				e.safety("nil", s, fmt.Sprintf("(not (= %s null))", bv.T))
				s.regs[x] = HeapAddr{Ref: bv.T, Key: structFam(st, fld.Name())}
			case HeapAddr:
				s.regs[x] = HeapAddr{Ref: bv.Ref, Key: bv.Key + "." + fld.Name()}
			case ElemAddr:
				s.regs[x] = ElemAddr{Arr: bv.Arr, Idx: bv.Idx, Key: bv.Key + "." + fld.Name()}
			case GlobalAddr:
				e.abort("field address of a package-level variable: %s", bv.Name)
			default:
				e.abort("fieldaddr base %T", base)
			}
		case *ssa.IndexAddr:
			idx := e.sc(s, x.Index)
			switch bv := e.val(s, x.X).(type) {
			case SliceV:
				et := x.X.Type().Underlying().(*types.Slice).Elem()
				e.safety("index", s, fmt.Sprintf("(and (<= 0 %s) (< %s %s))", idx, idx, bv.Len))
				s.regs[x] = ElemAddr{Arr: bv.Arr, Idx: addT(bv.Off, idx), Key: "arr_" + sanitize(et.String())}
			case ArrPtr:
				et := x.X.Type().Underlying().(*types.Pointer).Elem().Underlying().(*types.Array).Elem()
				e.safety("index", s, fmt.Sprintf("(and (<= 0 %s) (< %s %d))", idx, idx, bv.Len))
				s.regs[x] = ElemAddr{Arr: bv.Arr, Idx: idx, Key: "arr_" + sanitize(et.String())}
			case HeapAddr:
				// fixed-size array field of a heap object: elements in the family <field>[] : (Ref Int) -> elem
				at := x.X.Type().Underlying().(*types.Pointer).Elem().Underlying().(*types.Array)
				e.safety("index", s, fmt.Sprintf("(and (<= 0 %s) (< %s %d))", idx, idx, at.Len()))
				s.regs[x] = ElemAddr{Arr: bv.Ref, Idx: idx, Key: bv.Key + "[]"}
			case LocalAddr:
				e.abort("outside subset: index into a local fixed-size array value")
			default:
				e.abort("indexaddr base %T", bv)
			}
		case *ssa.Index:
			e.abort("outside subset: Index on array/string value")
		case *ssa.Slice:
			s.regs[x] = e.sliceOp(s, x)
		case *ssa.SliceToArrayPointer:
			// [N]T(s) / (*[N]T)(s): panics when len(s) < N. Modelled only where the pointer is immediately dereferenced
			// (the conversion to an array VALUE): the value is an opaque array term, so the pointer is a fresh array object
			// with unknown elements - an over-approximation; a pointer that is kept would alias the slice (outside the subset).
			sv, ok := e.val(s, x.X).(SliceV)
			at, ok2 := x.Type().Underlying().(*types.Pointer).Elem().Underlying().(*types.Array)
			if !ok || !ok2 {
				e.abort("outside subset: SliceToArrayPointer on %T", e.val(s, x.X))
			}
			for _, r := range *x.Referrers() {
				if u, ok := r.(*ssa.UnOp); !ok || u.Op != token.MUL {
					e.abort("outside subset: array pointer obtained from a slice is kept (aliases the slice)")
				}
			}
			e.safety("slice", s, fmt.Sprintf("(>= %s %d)", sv.Len, at.Len()))
			s.regs[x] = ArrPtr{Arr: e.freshRef(s, "s2a"), Len: at.Len()}
		case *ssa.MakeSlice:
			arr := e.freshRef(s, "mk")
			ln, cp := e.sc(s, x.Len), e.sc(s, x.Cap)
			e.safety("makeslice", s, fmt.Sprintf("(and (<= 0 %s) (<= %s %s))", ln, ln, cp))
			et := x.Type().Underlying().(*types.Slice).Elem()
			e.zeroElems(s, arr, et)
			s.regs[x] = SliceV{Arr: arr, Off: "0", Len: ln, Cap: cp}
		case *ssa.MakeMap:
			r := e.freshRef(s, "map")
			mt := x.Type().Underlying().(*types.Map)
			hf, _, ks := mapFam(mt)
			// fresh map is empty: has(r, k) == false for all k
			old := e.cur(s, hf, []string{"Ref", ks}, "Bool")
			e.fresh++
			nw := fmt.Sprintf("|%s!%d|", hf, e.fresh)
			e.decl(fmt.Sprintf("(define-fun %s ((x0 Ref) (x1 %s)) Bool (ite (= x0 %s) false (%s x0 x1)))", nw, ks, r, old))
			e.macros[nw] = true
			s.ver[hf] = nw
			e.hwrite(s, "len_"+sanitize(mt.String()), []string{"Ref"}, "Int", []string{r}, "0")
			s.regs[x] = S("%s", r)
		case *ssa.MakeChan:
			// creating a channel is an allocation of an opaque object; sending/receiving stays outside the subset
			s.regs[x] = S("%s", e.freshRef(s, "chan"))
		case *ssa.MakeClosure:
			cv := ClosureV{Fn: x.Fn.(*ssa.Function)}
			for _, b := range x.Bindings {
				cv.Bindings = append(cv.Bindings, e.val(s, b))
			}
			s.regs[x] = cv
		case *ssa.MakeInterface:
			s.regs[x] = e.makeInterface(s, x.X.Type(), e.val(s, x.X))
		case *ssa.ChangeInterface:
			s.regs[x] = e.val(s, x.X)
		case *ssa.TypeAssert:
			e.typeAssert(s, x)
		case *ssa.Defer:
			d := deferred{call: x}
			if !x.Call.IsInvoke() {
				d.fn = e.val(s, x.Call.Value)
			} else {
				d.fn = e.val(s, x.Call.Value)
			}
			for _, a := range x.Call.Args {
				d.args = append(d.args, e.val(s, a))
			}
			s.defers = append(s.defers, d)
		case *ssa.RunDefers:
			base := 0
			if len(e.frames) > 0 {
				base = e.frames[len(e.frames)-1].defers
			}
			e.runDefers(s, base, func(s2 *State) { e.blockFrom(s2, b, idx+1, depth+1) })
			return
		case *ssa.Field:
			s.regs[x] = e.val(s, x.X).(*Agg).F[x.Field]
		case *ssa.Extract:
			s.regs[x] = e.val(s, x.Tuple).(Tuple).E[x.Index]
		case *ssa.Range:
			mt, ok := x.X.Type().Underlying().(*types.Map)
			if !ok {
				e.abort("outside subset: range over string")
			}
			e.iterN++
			it := Iter{MapRef: e.sc(s, x.X), MapTy: mt, ID: e.iterN}
			nm := e.freshName("seen0")
			_, _, ks := mapFam(mt)
			e.declSort(ks)
			e.decl(fmt.Sprintf("(define-fun |%s| ((k %s)) Bool false)", nm, ks))
			s.seenFn[it.ID] = "|" + nm + "|"
			s.regs[x] = it
		case *ssa.Next:
			if x.IsString {
				e.abort("outside subset: range over string")
			}
			it := e.val(s, x.Iter).(Iter)
			_, _, ks := mapFam(it.MapTy)
			seen := s.seenFn[it.ID]
			ok := e.symbolic(s, types.Typ[types.Bool], "ok").(Scalar)
			k := e.symbolic(s, it.MapTy.Key(), "k")
			kt := e.keyTerm(it.MapTy, k)
			s.assume("(=> %s (and %s (not (%s %s))))", ok.T, e.mapHas(s, it.MapTy, it.MapRef, kt), seen, kt)
			s.assume("(=> (not %s) (forall ((q %s)) %s))", ok.T, ks, e.withPat(fmt.Sprintf("(=> %s (%s q))", e.mapHas(s, it.MapTy, it.MapRef, "q"), seen), seen, []string{"q"}))
			nm := e.freshName("seen")
			e.decl(fmt.Sprintf("(define-fun |%s| ((q %s)) Bool (or (%s q) (and %s (= q %s))))", nm, ks, seen, ok.T, kt))
			s.seenFn[it.ID] = "|" + nm + "|"
			v := e.mapVal(s, it.MapTy, it.MapRef, kt)
			e.loadFacts(s, it.MapTy.Elem(), v)
			s.regs[x] = Tuple{E: []Val{ok, k, v}}
		case *ssa.Lookup:
			mt, ok := x.X.Type().Underlying().(*types.Map)
			if !ok {
				// string index
				s.regs[x] = e.symbolic(s, x.Type(), "strbyte")
				break
			}
			ref := e.sc(s, x.X)
			key := e.keyTerm(mt, e.val(s, x.Index))
			g := e.mapGet(s, mt, ref, key)
			e.loadFacts(s, mt.Elem(), g)
			if x.CommaOk {
				s.regs[x] = Tuple{E: []Val{g, S("%s", e.mapHas(s, mt, ref, key))}}
			} else {
				s.regs[x] = g
			}
		case *ssa.MapUpdate:
			mt := x.Map.Type().Underlying().(*types.Map)
			ref := e.sc(s, x.Map)
			key := e.keyTerm(mt, e.val(s, x.Key))
			e.safety("nilmap", s, fmt.Sprintf("(not (= %s null))", ref))
			e.checkRangeMutation(s, mt, ref, key, false)
			e.escape(s, e.val(s, x.Value))
			e.escape(s, e.val(s, x.Key))
			e.mapStore(s, mt, ref, key, e.val(s, x.Value))
		case *ssa.Call:
			if e.call(s, x, x.Common(), x, func(s2 *State) { e.blockFrom(s2, b, idx+1, depth+1) }) {
				return
			}
		case *ssa.Phi:
			found := false
			for i, p := range b.Preds {
				if p == s.prev {
					s.regs[x] = e.val(s, x.Edges[i])
					found = true
					break
				}
			}
			if !found {
				e.abort("phi: no matching predecessor")
			}
		case *ssa.Convert:
			s.regs[x] = e.convert(s, x)
		case *ssa.ChangeType:
			s.regs[x] = e.val(s, x.X)
		case *ssa.MultiConvert:
			e.abort("outside subset: %T", x)
		case *ssa.DebugRef:
		case *ssa.Go:
			e.abort("outside subset: go statement")
		case *ssa.Select:
			e.abort("outside subset: select")
		case *ssa.Send:
			if e.con == nil || !e.con.AllowSend {
				e.abort("outside subset: channel send")
			}
		case *ssa.Panic:
			if len(e.unwinding) > 0 {
				// a panic raised by a deferred function while a panic unwinds (typically: recover, clean up, panic again):
				// the rest of the deferred function is abandoned and the unwinding goes on, panicking
				s.panicking = true
				e.resumeUnwind(s)
				return
			}
			e.panicExit(s, "explicit panic")
			return
		case *ssa.Jump:
			s.prev = b
			e.run(s, b.Succs[0], depth+1)
			return
		case *ssa.If:
			c := e.sc(s, x.Cond)
			// a condition that constant-folds (e.g. `recover() != nil` on a path without a panic) decides the branch here
			// instead of dragging an infeasible path to the end of the function
			if c != "true" && c != "false" && len(c) < 400 {
				if triviallyValid(c) {
					c = "true"
				} else if triviallyValid("(not " + c + ")") {
					c = "false"
				}
			}
			pos := e.posStr(token.NoPos)
			if c != "false" {
				t := s.clone()
				t.assume("%s", c)
				t.trace = append(t.trace, pos+":T")
				t.prev = b
				e.run(t, b.Succs[0], depth+1)
			}
			if c != "true" {
				f := s
				f.assume("(not %s)", c)
				f.trace = append(f.trace, pos+":F")
				f.prev = b
				e.run(f, b.Succs[1], depth+1)
			}
			return
		case *ssa.Return:
			var res []Val
			for _, r := range x.Results {
				res = append(res, e.val(s, r))
			}
			if len(e.frames) > 0 {
				fr := e.frames[len(e.frames)-1]
				e.frames = e.frames[:len(e.frames)-1]
				fr.ret(s, res)
				e.frames = append(e.frames, fr)
				return
			}
			e.atExit(s, res)
			return
		default:
			e.abort("unsupported instr %T: %s", ins, ins)
		}
	}
}

func addT(a, b string) string {
	if a == "0" {
		return b
	}
	if b == "0" {
		return a
	}
	return fmt.Sprintf("(+ %s %s)", a, b)
}

func (e *Exec) zeroArray(s *State, arr string, at *types.Array) {
	e.zeroElems(s, arr, at.Elem())
}

// all elements of a fresh array are zero: new version of the element families agreeing with zero on arr
func (e *Exec) zeroElems(s *State, arr string, et types.Type) {
	e.disassemble(et, "arr_"+sanitize(et.String()), zero(et), func(p, so, term string) {
		old := e.cur(s, p, []string{"Ref", "Int"}, so)
		e.fresh++
		nw := fmt.Sprintf("|%s!%d|", p, e.fresh)
		e.decl(fmt.Sprintf("(define-fun %s ((x0 Ref) (x1 Int)) %s (ite (= x0 %s) %s (%s x0 x1)))", nw, so, arr, term, old))
		e.macros[nw] = true
		s.ver[p] = nw
	})
}

func (e *Exec) sliceOp(s *State, x *ssa.Slice) Val {
	getb := func(v ssa.Value, d string) string {
		if v == nil {
			return d
		}
		return e.sc(s, v)
	}
	switch bv := e.val(s, x.X).(type) {
	case ArrPtr:
		lo, hi := getb(x.Low, "0"), getb(x.High, fmt.Sprint(bv.Len))
		e.safety("slice", s, fmt.Sprintf("(and (<= 0 %s) (<= %s %s) (<= %s %d))", lo, lo, hi, hi, bv.Len))
		return SliceV{Arr: bv.Arr, Off: lo, Len: subT(hi, lo), Cap: subT(fmt.Sprint(bv.Len), lo)}
	case SliceV:
		lo, hi := getb(x.Low, "0"), getb(x.High, bv.Len)
		mx := getb(x.Max, bv.Cap)
		e.safety("slice", s, fmt.Sprintf("(and (<= 0 %s) (<= %s %s) (<= %s %s) (<= %s %s))", lo, lo, hi, hi, mx, mx, bv.Cap))
		return SliceV{Arr: bv.Arr, Off: addT(bv.Off, lo), Len: subT(hi, lo), Cap: subT(mx, lo)}
	case Scalar:
		if sortOf(x.X.Type()) == "Str" {
			r := e.symbolic(s, x.Type(), "substr")
			return r
		}
	case LocalAddr:
		// slicing a local fixed-size array (e.g. actorID[:]) : opaque fresh slice of the right length
		if at, ok := x.X.Type().Underlying().(*types.Pointer).Elem().Underlying().(*types.Array); ok {
			r := e.symbolic(s, x.Type(), "arrslice").(SliceV)
			s.assume("(= %s %d)", r.Len, at.Len())
			return r
		}
	}
	e.abort("slice base %T", e.val(s, x.X))
	return nil
}

func subT(a, b string) string {
	if b == "0" {
		return a
	}
	return fmt.Sprintf("(- %s %s)", a, b)
}

func (e *Exec) makeInterface(s *State, t types.Type, xv Val) Val {
	if isIface(t) {
		return xv
	}
	tag := typeID(t)
	e.w.typeNames[tag] = t
	if sortOf(t) == "Ref" {
		return &Agg{F: []Val{S("%d", tag), e.scalarOf(xv)}}
	}
	// boxed non-reference value: a fresh box whose content is remembered by ghost "unbox" families
	ref := e.freshRef(s, "box")
	e.disassemble(t, "$unbox_"+sanitize(t.String()), xv, func(p, so, term string) {
		e.hwrite(s, p, []string{"Ref"}, so, []string{ref}, term)
	})
	return &Agg{F: []Val{S("%d", tag), S("%s", ref)}}
}

func (e *Exec) unbox(s *State, t types.Type, ref string) Val {
	if sortOf(t) == "Ref" {
		return S("%s", ref)
	}
	return e.assemble(t, "$unbox_"+sanitize(t.String()), func(p, so string) string {
		return fmt.Sprintf("(%s %s)", e.cur(s, p, []string{"Ref"}, so), ref)
	})
}

func (e *Exec) typeAssert(s *State, x *ssa.TypeAssert) {
	iv := e.val(s, x.X).(*Agg)
	tag, ref := iv.F[0].(Scalar).T, iv.F[1].(Scalar).T
	var ok string
	var v Val
	if isIface(x.AssertedType) {
		it := x.AssertedType.Underlying().(*types.Interface)
		if it.NumMethods() == 0 {
			ok = fmt.Sprintf("(not (= %s 0))", tag)
		} else {
			p := "|$impl_" + sanitize(x.AssertedType.String()) + "|"
			e.decl(fmt.Sprintf("(declare-fun %s (Int) Bool)", p))
			ok = fmt.Sprintf("(and (not (= %s 0)) (%s %s))", tag, p, tag)
		}
		v = iv
	} else {
		id := typeID(x.AssertedType)
		e.w.typeNames[id] = x.AssertedType
		ok = fmt.Sprintf("(= %s %d)", tag, id)
		v = e.unbox(s, x.AssertedType, ref)
	}
	if x.CommaOk {
		s.regs[x] = Tuple{E: []Val{e.iteVal(x.AssertedType, ok, v, zero(x.AssertedType)), S("%s", ok)}}
		return
	}
	e.safety("typeassert", s, ok)
	s.assume("%s", ok)
	s.regs[x] = v
}

func (e *Exec) convert(s *State, x *ssa.Convert) Val {
	from, to := x.X.Type(), x.Type()
	fs, ts := sortOf(from), sortOf(to)
	if fs == "Int" && ts == "Int" {
		v := e.sc(s, x.X)
		tb := to.Underlying().(*types.Basic)
		lo, hi, _ := intRange(tb)
		if e.checked {
			e.obligeK("safety/overflow", "", nil, s, fmt.Sprintf("(and (<= %s %s) (<= %s %s))", lo, v, v, hi), "conversion to "+tb.Name()+" at "+e.posStr(token.NoPos))
		}
		if e.wrapping() {
			return S("%s", wrapTerm(v, tb))
		}
		return S("%s", v)
	}
	if fs == ts && fs != "Float" {
		return e.val(s, x.X)
	}
	// string <-> []byte, numeric <-> float, etc.: deterministic uninterpreted function of the source where the source is a scalar
	if sc, ok := e.val(s, x.X).(Scalar); ok && (ts == "Int" || ts == "Str" || ts == "Float") {
		e.declSort(fs)
		e.declSort(ts)
		f := fmt.Sprintf("|conv_%s_to_%s|", sanitize(from.String()), sanitize(to.String()))
		e.decl(fmt.Sprintf("(declare-fun %s (%s) %s)", f, fs, ts))
		r := S("(%s %s)", f, sc.T)
		if ts == "Int" {
			if lo, hi, ok := intRange(to.Underlying().(*types.Basic)); ok {
				s.assume("(and (<= %s %s) (<= %s %s))", lo, r.T, r.T, hi)
			}
		}
		return r
	}
	r := e.symbolic(s, to, "conv")
	if sv, ok := r.(SliceV); ok && fs == "Str" {
		e.decl("(declare-fun |str.len| (Str) Int)")
		s.assume("(= %s (|str.len| %s))", sv.Len, e.sc(s, x.X))
	}
	return r
}

var pow2 = func() []string {
	var out []string
	v := int64(1)
	for i := 0; i < 63; i++ {
		out = append(out, fmt.Sprint(v))
		v *= 2
	}
	return out
}()

func (e *Exec) binop(s *State, x *ssa.BinOp) Val {
	xt := x.X.Type()
	if x.Op == token.EQL || x.Op == token.NEQ {
		var eq string
		if isIface(xt) && !isIface(x.Y.Type()) {
			// comparison of an interface with a concrete value
			eq = e.eqVal(xt, e.val(s, x.X), e.makeInterface(s, x.Y.Type(), e.val(s, x.Y)))
		} else if !isIface(xt) && isIface(x.Y.Type()) {
			eq = e.eqVal(x.Y.Type(), e.makeInterface(s, xt, e.val(s, x.X)), e.val(s, x.Y))
		} else if isIface(xt) {
			// interface equality: same dynamic type and same reference (boxed values: conservatively by box identity
			// or nil-ness; comparisons against nil are exact)
			l, r := e.val(s, x.X).(*Agg), e.val(s, x.Y).(*Agg)
			if r.F[0].(Scalar).T == "0" || l.F[0].(Scalar).T == "0" {
				eq = fmt.Sprintf("(= %s %s)", l.F[0].(Scalar).T, r.F[0].(Scalar).T)
			} else {
				// error sentinels and pointers: identity; boxed: unknown
				u := e.symbolic(s, types.Typ[types.Bool], "ifaceeq").(Scalar).T
				same := fmt.Sprintf("(and (= %s %s) (= %s %s))", l.F[0].(Scalar).T, r.F[0].(Scalar).T, l.F[1].(Scalar).T, r.F[1].(Scalar).T)
				s.assume("(=> %s %s)", same, u)
				s.assume("(=> (not (= %s %s)) (not %s))", l.F[0].(Scalar).T, r.F[0].(Scalar).T, u)
				eq = u
			}
		} else {
			eq = e.eqVal(xt, e.scalarize(s, x.X), e.scalarize(s, x.Y))
		}
		if x.Op == token.NEQ {
			return S("(not %s)", eq)
		}
		return S("%s", eq)
	}
	so := sortOf(xt)
	a, b := e.sc(s, x.X), e.sc(s, x.Y)
	switch so {
	case "Bool":
		switch x.Op {
		case token.LAND, token.AND:
			return S("(and %s %s)", a, b)
		case token.LOR, token.OR:
			return S("(or %s %s)", a, b)
		}
	case "Str":
		e.declSort("Str")
		switch x.Op {
		case token.ADD:
			e.decl("(declare-fun |str.cat| (Str Str) Str)")
			return S("(|str.cat| %s %s)", a, b)
		case token.LSS, token.GTR, token.LEQ, token.GEQ:
			e.decl("(declare-fun |str.lt| (Str Str) Bool)")
			switch x.Op {
			case token.LSS:
				return S("(|str.lt| %s %s)", a, b)
			case token.GTR:
				return S("(|str.lt| %s %s)", b, a)
			case token.LEQ:
				return S("(not (|str.lt| %s %s))", b, a)
			default:
				return S("(not (|str.lt| %s %s))", a, b)
			}
		}
	case "Float":
		if x.Op == token.LSS || x.Op == token.GTR || x.Op == token.LEQ || x.Op == token.GEQ {
			return e.symbolic(s, types.Typ[types.Bool], "fcmp")
		}
		return e.symbolic(s, x.Type(), "fop")
	case "Int":
		bt, _ := x.Type().Underlying().(*types.Basic)
		chk := func(op string) {
			if !e.checked || bt == nil {
				return
			}
			if lo, hi, ok := intRange(bt); ok {
				r := fmt.Sprintf("(%s %s %s)", op, a, b)
				e.obligeK("safety/overflow", "", nil, s, fmt.Sprintf("(and (<= %s %s) (<= %s %s))", lo, r, r, hi), bt.Name()+" "+op+" at "+e.posStr(token.NoPos))
			}
		}
		if e.wrapping() && bt != nil && (x.Op == token.ADD || x.Op == token.SUB || x.Op == token.MUL) {
			op := map[token.Token]string{token.ADD: "+", token.SUB: "-", token.MUL: "*"}[x.Op]
			return S("%s", wrapTerm(fmt.Sprintf("(%s %s %s)", op, a, b), bt))
		}
		switch x.Op {
		case token.ADD:
			chk("+")
			return S("(+ %s %s)", a, b)
		case token.SUB:
			chk("-")
			return S("(- %s %s)", a, b)
		case token.MUL:
			chk("*")
			return S("(* %s %s)", a, b)
		case token.QUO:
			e.safety("div", s, fmt.Sprintf("(not (= %s 0))", b))
			e.decl("(define-fun |tdiv| ((a Int) (b Int)) Int (ite (>= a 0) (div a b) (- (div (- a) b))))")
			return S("(|tdiv| %s %s)", a, b)
		case token.REM:
			e.safety("div", s, fmt.Sprintf("(not (= %s 0))", b))
			e.decl("(define-fun |tdiv| ((a Int) (b Int)) Int (ite (>= a 0) (div a b) (- (div (- a) b))))")
			return S("(- %s (* %s (|tdiv| %s %s)))", a, b, a, b)
		case token.LSS:
			return S("(< %s %s)", a, b)
		case token.LEQ:
			return S("(<= %s %s)", a, b)
		case token.GTR:
			return S("(> %s %s)", a, b)
		case token.GEQ:
			return S("(>= %s %s)", a, b)
		case token.SHL, token.SHR:
			if c, ok := x.Y.(*ssa.Const); ok && c.Value != nil {
				if n, ok := constant.Int64Val(c.Value); ok && n >= 0 && n < 63 {
					if x.Op == token.SHL {
						return S("(* %s %s)", a, pow2[n])
					}
					return S("(div %s %s)", a, pow2[n])
				}
			}
		case token.AND:
			if c, ok := x.Y.(*ssa.Const); ok && c.Value != nil {
				if n, ok := constant.Int64Val(c.Value); ok && n > 0 && (n&(n+1)) == 0 {
					return S("(mod %s %d)", a, n+1)
				}
			}
		}
		// remaining bit operations: uninterpreted
		f := "|bitop_" + sanitize(x.Op.String()) + "|"
		nm := map[token.Token]string{token.AND: "and", token.OR: "or", token.XOR: "xor", token.SHL: "shl", token.SHR: "shr", token.AND_NOT: "andnot"}[x.Op]
		if nm != "" {
			f = "|bitop_" + nm + "|"
			e.decl(fmt.Sprintf("(declare-fun %s (Int Int) Int)", f))
			r := S("(%s %s %s)", f, a, b)
			if bt != nil {
				if lo, hi, ok := intRange(bt); ok {
					s.assume("(and (<= %s %s) (<= %s %s))", lo, r.T, r.T, hi)
				}
			}
			return r
		}
	}
	e.abort("binop %s on %s", x.Op, xt)
	return nil
}

// scalarize: value of v, with executor-level addresses turned into Ref terms when compared
func (e *Exec) scalarize(s *State, v ssa.Value) Val {
	x := e.val(s, v)
	switch x.(type) {
	case Scalar, *Agg, SliceV:
		return x
	}
	return e.scalarOf(x)
}

// ---------- defers and exits ----------

// A panic that unwinds: the deferred calls of the function under verification run in reverse order; a deferred function
// that calls recover() stops the panic (execution then resumes in the function's recover block, i.e. it returns its named
// results); if the panic is still on when the last deferred call has run, the function exits by panic and the
// ensures-on-panic clauses are proved.
type unwindPoint struct {
	frames int             // len(e.frames) when the deferred call was started
	rest   func(*State)    // continue the unwinding after this deferred call
}

func (e *Exec) unwind(s *State) {
	if len(s.defers) == 0 {
		if s.panicking {
			e.atPanicExit(s)
			return
		}
		// recovered: the function returns normally through its recover block
		if e.fn.Recover != nil {
			s.prev = nil
			e.blockFrom(s, e.fn.Recover, 0, 1)
			return
		}
		var res []Val
		rs := e.fn.Signature.Results()
		for i := 0; i < rs.Len(); i++ {
			res = append(res, zero(rs.At(i).Type()))
		}
		e.atExit(s, res)
		return
	}
	d := s.defers[len(s.defers)-1]
	s.defers = s.defers[:len(s.defers)-1]
	e.unwinding = append(e.unwinding, unwindPoint{frames: len(e.frames), rest: func(s2 *State) { e.unwind(s2) }})
	e.callDeferred(s, d, func(s2 *State) {
		up := e.unwinding[len(e.unwinding)-1]
		e.unwinding = e.unwinding[:len(e.unwinding)-1]
		up.rest(s2)
		e.unwinding = append(e.unwinding, up)
	})
	e.unwinding = e.unwinding[:len(e.unwinding)-1]
}

// a deferred function panicked during the unwinding: drop what is left of it and go on with the next deferred call
func (e *Exec) resumeUnwind(s *State) {
	up := e.unwinding[len(e.unwinding)-1]
	saved := e.frames
	e.frames = append([]frame{}, e.frames[:up.frames]...)
	e.unwinding = e.unwinding[:len(e.unwinding)-1]
	up.rest(s)
	e.unwinding = append(e.unwinding, up)
	e.frames = saved
}

func (e *Exec) atPanicExit(s *State) {
	con := e.con
	e.curPos = token.NoPos
	env := e.exitEnv(s, nil)
	for _, en := range con.EnsPanic {
		e.prove("ensures-on-panic", en.Label(), en.Tags, s, en.Expr, env, "ensures-on-panic "+en.Src)
	}
	e.obls = append(e.obls, Oblig{Key: shortFunc(e.fn.String()) + "/vacuity@panic-exit", Kind: "vacuity-backedge", Func: e.fn.String(), Pre: append([]string{}, s.pc...), Goal: "false", Canary: true, Path: e.paths, Desc: "some path that leaves the function by panic must be feasible", Trace: append([]string{}, s.trace...)})
	e.endPath()
}

func (e *Exec) runDefers(s *State, base int, rest func(*State)) {
	if len(s.defers) <= base {
		rest(s)
		return
	}
	d := s.defers[len(s.defers)-1]
	s.defers = s.defers[:len(s.defers)-1]
	e.callDeferred(s, d, func(s2 *State) { e.runDefers(s2, base, rest) })
}

func (e *Exec) panicExit(s *State, why string) {
	if len(e.frames) > 0 || e.con == nil || !e.con.MayPanic {
		mp := false
		// inlined callee panics: allowed only if the top-level contract allows panics
		if e.con != nil && e.con.MayPanic {
			mp = true
		}
		if !mp {
			e.obligeK("safety/panic", "", nil, s, "false", why+" at "+e.posStr(token.NoPos))
		}
	}
	e.endPath()
}

func sortedAllocs(m map[*ssa.Alloc]Val) []*ssa.Alloc {
	var out []*ssa.Alloc
	for a := range m {
		out = append(out, a)
	}
	sort.Slice(out, func(i, j int) bool { return out[i].Pos() < out[j].Pos() })
	return out
}

// arith wrapping: the value of a fixed-width integer expression is its mathematical value reduced into the type's range
func (e *Exec) wrapping() bool {
	if len(e.frames) > 0 {
		return e.con != nil && e.con.Wrapping // inlined callees run under the verified function's mode
	}
	return e.con != nil && e.con.Wrapping
}

func wrapTerm(v string, b *types.Basic) string {
	lo, hi, ok := intRange(b)
	if !ok {
		return v
	}
	// ((v - lo) mod (hi - lo + 1)) + lo
	return fmt.Sprintf("(+ (mod (- %s %s) (+ (- %s %s) 1)) %s)", v, lo, hi, lo, lo)
}
