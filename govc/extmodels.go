// extmodels.go: Go-coded assumed contracts of external functions. Every one used in a run is listed under
// "assumptions" in the evidence as model(assumed): <name>; the statement assumed is in extModelDoc.
package main

import (
	"fmt"
	"go/types"
	"strings"

	"golang.org/x/tools/go/ssa"
)

func isErrorIface(t types.Type) bool {
	if !isIface(t) {
		return false
	}
	et := types.Universe.Lookup("error").Type().Underlying().(*types.Interface)
	return types.Implements(t, et)
}

func (e *Exec) errIsDecl() {
	e.decl("(declare-fun |$errIs| (Ref Ref) Bool)")
	e.declOwned("|$errIs|", "(assert (forall ((r Ref)) (! (|$errIs| r r) :pattern ((|$errIs| r r)))))")
}

// evaluate a closure to a single term (pure, loop-free closures only): ite over its paths
func (e *Exec) closureTerm(s *State, cv ClosureV, args []Val) (string, bool) {
	type outcome struct {
		conds []string
		res   string
	}
	var outs []outcome
	ok := true
	func() {
		defer func() {
			if r := recover(); r != nil {
				if _, isAbort := r.(execAbort); isAbort {
					ok = false
					return
				}
				panic(r)
			}
		}()
		c := s.clone()
		base := len(c.pc)
		e.inSpecInline++
		e.quietLoads++
		savedObls := len(e.obls)
		savedPaths := e.paths
		for i, fv := range cv.Fn.FreeVars {
			c.regs[fv] = cv.Bindings[i]
		}
		for i, p := range cv.Fn.Params {
			c.regs[p] = args[i]
		}
		savedFrames := e.frames
		e.frames = append(e.frames, frame{fn: cv.Fn, defers: len(c.defers), ret: func(s2 *State, res []Val) {
			if len(res) != 1 {
				ok = false
				return
			}
			sc, isSc := res[0].(Scalar)
			if !isSc {
				ok = false
				return
			}
			outs = append(outs, outcome{append([]string{}, s2.pc[base:]...), sc.T})
		}})
		e.blockFrom(c, cv.Fn.Blocks[0], 0, len(e.frames)*20)
		e.frames = savedFrames
		e.inSpecInline--
		e.quietLoads--
		e.obls = e.obls[:savedObls]
		e.paths = savedPaths
	}()
	if !ok || len(outs) == 0 {
		return "", false
	}
	term := outs[len(outs)-1].res
	for i := len(outs) - 2; i >= 0; i-- {
		c := "true"
		if len(outs[i].conds) == 1 {
			c = outs[i].conds[0]
		} else if len(outs[i].conds) > 1 {
			c = "(and " + strings.Join(outs[i].conds, " ") + ")"
		}
		term = fmt.Sprintf("(ite %s %s %s)", c, outs[i].res, term)
	}
	return term, true
}

func closureOf(e *Exec, v Val) (ClosureV, bool) {
	switch x := v.(type) {
	case ClosureV:
		return x, true
	case FuncV:
		return ClosureV{Fn: x.Fn}, true
	case Scalar:
		if cv, ok := e.closures[x.T]; ok {
			return cv, true
		}
		if f, ok := e.funcvals[x.T]; ok {
			return ClosureV{Fn: f.Fn}, true
		}
	}
	return ClosureV{}, false
}

func init() {
	// ---------- fmt / errors ----------
	extModelDoc["time.Now"] = "returns a time t with !t.IsZero()"
	extModelDoc["fmt.Errorf"] = "returns a non-nil error; with error-typed arguments (the %w idiom) errors.Is(result, t) holds for every t that errors.Is(arg, t) holds for"
	extModels["fmt.Errorf"] = func(e *Exec, s *State, args []Val, cc *ssa.CallCommon, setRes func(*State, Val), rest func(*State)) {
		er := e.symbolic(s, cc.Signature().Results().At(0).Type(), "errorf").(*Agg)
		tag, ref := er.F[0].(Scalar).T, er.F[1].(Scalar).T
		s.assume("(and (not (= %s 0)) (not (= %s null)))", tag, ref)
		e.errIsDecl()
		// varargs slice: find error-typed elements among the boxed arguments
		if len(args) >= 2 {
			if va, ok := args[1].(SliceV); ok && va.Arr != "null" {
				if n, err := fmt.Sscanf(va.Len, "%d", new(int)); n == 1 && err == nil {
					var cnt int
					fmt.Sscanf(va.Len, "%d", &cnt)
					var anyT types.Type = types.NewInterfaceType(nil, nil)
					if ps := cc.Signature().Params(); ps.Len() > 0 {
						if sl, ok := ps.At(ps.Len() - 1).Type().(*types.Slice); ok {
							anyT = sl.Elem()
						}
					}
					for i := 0; i < cnt; i++ {
						el := e.load(s, ElemAddr{Arr: va.Arr, Idx: addT(va.Off, fmt.Sprint(i)), Key: "arr_" + sanitize(anyT.String())}, anyT).(*Agg)
						aref := el.F[1].(Scalar).T
						// wrapping is only meaningful for error values; for other boxed values the fact is harmless
						s.assume("(forall ((t Ref)) (! (=> (|$errIs| %s t) (|$errIs| %s t)) :pattern ((|$errIs| %s t))))", aref, ref, ref)
						s.assume("(|$errIs| %s %s)", ref, aref)
					}
				}
			}
		}
		setRes(s, er)
		rest(s)
	}
	extModelDoc["errors.New"] = "returns a non-nil error"
	extModels["errors.New"] = func(e *Exec, s *State, args []Val, cc *ssa.CallCommon, setRes func(*State, Val), rest func(*State)) {
		er := e.symbolic(s, cc.Signature().Results().At(0).Type(), "errnew").(*Agg)
		s.assume("(and (not (= %s 0)) (not (= %s null)))", er.F[0].(Scalar).T, er.F[1].(Scalar).T)
		setRes(s, er)
		rest(s)
	}
	extModelDoc["errors.Is"] = "errors.Is(err, target) == (err != nil && errIs(err, target)), errIs reflexive and closed under %w wrapping"
	extModels["errors.Is"] = func(e *Exec, s *State, args []Val, cc *ssa.CallCommon, setRes func(*State, Val), rest func(*State)) {
		e.errIsDecl()
		er, tg := args[0].(*Agg), args[1].(*Agg)
		setRes(s, S("(and (not (= %s 0)) (|$errIs| %s %s))", er.F[0].(Scalar).T, er.F[1].(Scalar).T, tg.F[1].(Scalar).T))
		rest(s)
	}

	// ---------- encoding/base64 ----------
	extModelDoc["(*encoding/base64.Encoding).Decode"] = "requires len(dst) >= 3*(len(src)/4) (a lower bound of DecodedLen(len(src)) for every encoding: Decode writes up to DecodedLen bytes and panics past the end of dst); overwrites dst[0:len(dst)] with unknown bytes; returns 0 <= n <= len(dst) and an unknown error"
	extModels["(*encoding/base64.Encoding).Decode"] = func(e *Exec, s *State, args []Val, cc *ssa.CallCommon, setRes func(*State, Val), rest func(*State)) {
		dst, ok1 := args[1].(SliceV)
		src, ok2 := args[2].(SliceV)
		if !ok1 || !ok2 {
			e.abort("base64 Decode: arguments are not slices")
		}
		e.safety("slice", s, fmt.Sprintf("(>= %s (* 3 (div %s 4)))", dst.Len, src.Len))
		et := cc.Signature().Params().At(0).Type().Underlying().(*types.Slice).Elem()
		fam := "arr_" + sanitize(et.String())
		e.disassemble(et, fam, e.symbolicQuiet(et), func(p, so, _ string) {
			old := e.cur(s, p, []string{"Ref", "Int"}, so)
			nw := e.hhavoc(s, p, []string{"Ref", "Int"}, so)
			s.assume("(forall ((r Ref) (i Int)) (! (=> (not (and (= r %s) (<= %s i) (< i (+ %s %s)))) (= (%s r i) (%s r i))) :pattern ((%s r i))))", dst.Arr, dst.Off, dst.Off, dst.Len, nw, old, nw)
		})
		rt := cc.Signature().Results()
		n := e.symbolic(s, rt.At(0).Type(), "b64n").(Scalar)
		s.assume("(and (<= 0 %s) (<= %s %s))", n.T, n.T, dst.Len)
		er := e.symbolic(s, rt.At(1).Type(), "b64err")
		setRes(s, Tuple{E: []Val{n, er}})
		rest(s)
	}

	// ---------- sort.Slice ----------
	extModelDoc["sort.Slice"] = "permutes the slice in place so that less(j, i) is false for all i < j; nothing else changes"
	extModels["sort.Slice"] = func(e *Exec, s *State, args []Val, cc *ssa.CallCommon, setRes func(*State, Val), rest func(*State)) {
		mi, ok := cc.Args[0].(*ssa.MakeInterface)
		if !ok {
			e.abort("sort.Slice: argument is not a boxed slice")
		}
		st, ok := mi.X.Type().Underlying().(*types.Slice)
		if !ok {
			e.abort("sort.Slice: not a slice")
		}
		sv := e.val(s, mi.X).(SliceV)
		et := st.Elem()
		fam := "arr_" + sanitize(et.String())
		pre := s.clone()
		e.disassemble(et, fam, e.symbolicQuiet(et), func(p, so, _ string) {
			old := e.cur(s, p, []string{"Ref", "Int"}, so)
			nw := e.hhavoc(s, p, []string{"Ref", "Int"}, so)
			s.assume("(forall ((r Ref) (i Int)) (! (=> (not (and (= r %s) (<= %s i) (< i (+ %s %s)))) (= (%s r i) (%s r i))) :pattern ((%s r i))))", sv.Arr, sv.Off, sv.Off, sv.Len, nw, old, nw)
		})
		perm, inv := "|"+e.freshName("perm")+"|", "|"+e.freshName("perminv")+"|"
		e.decl(fmt.Sprintf("(declare-fun %s (Int) Int)", perm))
		e.decl(fmt.Sprintf("(declare-fun %s (Int) Int)", inv))
		in := func(j string) string {
			return fmt.Sprintf("(and (<= %s %s) (< %s (+ %s %s)))", sv.Off, j, j, sv.Off, sv.Len)
		}
		s.assume("(forall ((j Int)) (! (=> %s (and %s (= (%s (%s j)) j))) :pattern ((%s j))))", in("j"), in(fmt.Sprintf("(%s j)", perm)), inv, perm, perm)
		s.assume("(forall ((j Int)) (! (=> %s (and %s (= (%s (%s j)) j))) :pattern ((%s j))))", in("j"), in(fmt.Sprintf("(%s j)", inv)), perm, inv, inv)
		e.disassemble(et, fam, e.symbolicQuiet(et), func(p, so, _ string) {
			nw := e.cur(s, p, []string{"Ref", "Int"}, so)
			old := e.cur(pre, p, []string{"Ref", "Int"}, so)
			s.assume("(forall ((j Int)) (! (=> %s (= (%s %s j) (%s %s (%s j)))) :pattern ((%s %s j))))", in("j"), nw, sv.Arr, old, sv.Arr, perm, nw, sv.Arr)
		})
		if cv, ok := closureOf(e, args[1]); ok {
			if t, ok := e.closureTerm(s, cv, []Val{S("(- b!s %s)", sv.Off), S("(- a!s %s)", sv.Off)}); ok {
				s.assume("(forall ((a!s Int) (b!s Int)) (=> (and %s %s (< a!s b!s)) (not %s)))", in("a!s"), in("b!s"), t)
			} else {
				e.note("model-imprecision", "sort.Slice: less could not be evaluated to a term; only the permutation is assumed")
			}
		}
		rest(s)
	}

	// ---------- sync (locks are not modelled: sequential semantics) ----------
	// No effect on the heap (sequential semantics; mutual exclusion is not modelled). What IS tracked is which mutexes the
	// executing call holds, as ghost state ($mu.w / $mu.r : Ref -> Bool, keyed by the mutex's address), so that contracts
	// can state guarded-by facts with muheld(x) / murheld(x).
	muRef := func(e *Exec, v Val) (string, bool) {
		switch x := v.(type) {
		case Scalar:
			return x.T, true
		case HeapAddr:
			return e.scalarOf(x).T, true
		}
		return "", false
	}
	muSet := func(fam string, val func(e *Exec, s *State, cc *ssa.CallCommon, old string, setRes func(*State, Val)) string) func(e *Exec, s *State, args []Val, cc *ssa.CallCommon, setRes func(*State, Val), rest func(*State)) {
		return func(e *Exec, s *State, args []Val, cc *ssa.CallCommon, setRes func(*State, Val), rest func(*State)) {
			if r, ok := muRef(e, args[0]); ok {
				old := fmt.Sprintf("(%s %s)", e.cur(s, fam, []string{"Ref"}, "Bool"), r)
				e.hwrite(s, fam, []string{"Ref"}, "Bool", []string{r}, val(e, s, cc, old, setRes))
			} else if cc.Signature().Results().Len() == 1 {
				setRes(s, e.symbolic(s, cc.Signature().Results().At(0).Type(), "trylock"))
			}
			rest(s)
		}
	}
	constVal := func(v string) func(e *Exec, s *State, cc *ssa.CallCommon, old string, setRes func(*State, Val)) string {
		return func(e *Exec, s *State, cc *ssa.CallCommon, old string, setRes func(*State, Val)) string { return v }
	}
	tryVal := func(e *Exec, s *State, cc *ssa.CallCommon, old string, setRes func(*State, Val)) string {
		b := e.symbolic(s, cc.Signature().Results().At(0).Type(), "trylock").(Scalar)
		setRes(s, b)
		return fmt.Sprintf("(or %s %s)", old, b.T)
	}
	for n, m := range map[string]func(e *Exec, s *State, args []Val, cc *ssa.CallCommon, setRes func(*State, Val), rest func(*State)){
		"(*sync.Mutex).Lock": muSet("$mu.w", constVal("true")), "(*sync.Mutex).Unlock": muSet("$mu.w", constVal("false")), "(*sync.Mutex).TryLock": muSet("$mu.w", tryVal),
		"(*sync.RWMutex).Lock": muSet("$mu.w", constVal("true")), "(*sync.RWMutex).Unlock": muSet("$mu.w", constVal("false")), "(*sync.RWMutex).TryLock": muSet("$mu.w", tryVal),
		"(*sync.RWMutex).RLock": muSet("$mu.r", constVal("true")), "(*sync.RWMutex).RUnlock": muSet("$mu.r", constVal("false")), "(*sync.RWMutex).TryRLock": muSet("$mu.r", tryVal),
	} {
		extModelDoc[n] = "no effect on the heap (sequential semantics; mutual exclusion is not modelled); the ghost set of mutexes held by the call is updated"
		extModels[n] = m
	}
	specBuiltins["wrap32"] = func(env *SpecEnv, n SCall) TV {
		return TV{S("%s", wrapTerm(bterm(env.eval(n.Args[0])), types.Typ[types.Int32])), types.Typ[types.Int32]}
	}
	specBuiltins["wrap64"] = func(env *SpecEnv, n SCall) TV {
		return TV{S("%s", wrapTerm(bterm(env.eval(n.Args[0])), types.Typ[types.Int64])), types.Typ[types.Int64]}
	}
	specBuiltins["muheld"] = func(env *SpecEnv, n SCall) TV {
		return TV{S("(%s %s)", env.e.cur(env.cur, "$mu.w", []string{"Ref"}, "Bool"), env.muArg(n.Args[0])), boolT}
	}
	specBuiltins["murheld"] = func(env *SpecEnv, n SCall) TV {
		return TV{S("(%s %s)", env.e.cur(env.cur, "$mu.r", []string{"Ref"}, "Bool"), env.muArg(n.Args[0])), boolT}
	}

	initBtreeModels()
	initMemdbModels()
}

// ---------- github.com/google/btree, as used by ChangeStore: a finite map from the ordering key to the item ----------
// Ghost families: $bt.has : (Ref tree, Int key) -> Bool ; $bt.item : (Ref tree, Int key) -> Ref.
// Assumed: the tree is ordered by the int64 field `ServerSeq` of its items (NewChangeStore's less), keys are unique
// (ReplaceOrInsert replaces), iteration is ascending, and nobody mutates the key field of a stored item.

const btPkg = "(*github.com/google/btree.BTreeG[T])."

func btKeyOf(e *Exec, s *State, item string, cc *ssa.CallCommon) string {
	// key = item.ServerSeq for *database.ChangeInfo
	return fmt.Sprintf("(%s %s)", e.cur(s, "server_backend_database.ChangeInfo.ServerSeq", []string{"Ref"}, "Int"), item)
}

func btHas(e *Exec, s *State, tree, key string) string {
	return fmt.Sprintf("(%s %s %s)", e.cur(s, "$bt.has", []string{"Ref", "Int"}, "Bool"), tree, key)
}
func btItem(e *Exec, s *State, tree, key string) string {
	return fmt.Sprintf("(%s %s %s)", e.cur(s, "$bt.item", []string{"Ref", "Int"}, "Ref"), tree, key)
}

// well-formedness of the ghost view in state s (assumed whenever the tree is read)
func btWf(e *Exec, s *State, tree string) {
	s.assume("(forall ((q Int)) (! (=> %s (and (not (= %s null)) (= %s q) %s (<= (- 9223372036854775808) q) (<= q 9223372036854775807))) :pattern (%s)))", btHas(e, s, tree, "q"), btItem(e, s, tree, "q"), btKeyOf(e, s, btItem(e, s, tree, "q"), nil), e.isAlloc(s, btItem(e, s, tree, "q")), btItem(e, s, tree, "q"))
}

type iterInv struct {
	Invs []Clause
}

func initBtreeModels() {
	sigBt := map[string]famSig{"$bt.has": {[]string{"Ref", "Int"}, "Bool"}, "$bt.item": {[]string{"Ref", "Int"}, "Ref"}}
	extModelDoc[btPkg+"Len"] = "Len() == 0 iff the tree holds no item; Len() >= 0"
	extModels[btPkg+"Len"] = func(e *Exec, s *State, args []Val, cc *ssa.CallCommon, setRes func(*State, Val), rest func(*State)) {
		tree := e.scalarOf(args[0]).T
		e.safety("nil", s, fmt.Sprintf("(not (= %s null))", tree))
		l := e.symbolic(s, types.Typ[types.Int], "btlen").(Scalar).T
		s.assume("(and (>= %s 0) (= (= %s 0) (forall ((q Int)) (not %s))))", l, l, btHas(e, s, tree, "q"))
		setRes(s, S("%s", l))
		rest(s)
	}
	extModelDoc[btPkg+"ReplaceOrInsert"] = "the item becomes the one stored under its key; every other key is unchanged"
	extModels[btPkg+"ReplaceOrInsert"] = func(e *Exec, s *State, args []Val, cc *ssa.CallCommon, setRes func(*State, Val), rest func(*State)) {
		tree := e.scalarOf(args[0]).T
		item := e.scalarOf(args[1]).T
		e.safety("nil", s, fmt.Sprintf("(not (= %s null))", tree))
		e.obligeK("requires@call", "btree.ReplaceOrInsert#0", e.con.Tags, s, fmt.Sprintf("(not (= %s null))", item), "requires item != nil of btree.ReplaceOrInsert (the tree's less dereferences it) at "+e.posStr(0))
		key := btKeyOf(e, s, item, cc)
		e.hwrite(s, "$bt.has", []string{"Ref", "Int"}, "Bool", []string{tree, key}, "true")
		e.hwrite(s, "$bt.item", []string{"Ref", "Int"}, "Ref", []string{tree, key}, item)
		setRes(s, e.symbolicResult(s, cc.Signature().Results(), "btold"))
		rest(s)
	}
	extModelMods[btPkg+"ReplaceOrInsert"] = sigBt
	extModelDoc[btPkg+"Delete"] = "the key of the given item is no longer stored; every other key is unchanged"
	extModels[btPkg+"Delete"] = func(e *Exec, s *State, args []Val, cc *ssa.CallCommon, setRes func(*State, Val), rest func(*State)) {
		tree := e.scalarOf(args[0]).T
		item := e.scalarOf(args[1]).T
		e.safety("nil", s, fmt.Sprintf("(not (= %s null))", tree))
		key := btKeyOf(e, s, item, cc)
		e.hwrite(s, "$bt.has", []string{"Ref", "Int"}, "Bool", []string{tree, key}, "false")
		setRes(s, e.symbolicResult(s, cc.Signature().Results(), "btdel"))
		rest(s)
	}
	extModelMods[btPkg+"Delete"] = sigBt

	ascend := func(fromPivot bool) ExtModel {
		return func(e *Exec, s *State, args []Val, cc *ssa.CallCommon, setRes func(*State, Val), rest func(*State)) {
			tree := e.scalarOf(args[0]).T
			e.safety("nil", s, fmt.Sprintf("(not (= %s null))", tree))
			var cvVal Val
			start := ""
			if fromPivot {
				pivot := e.scalarOf(args[1]).T
				start = fmt.Sprintf("(- %s 1)", btKeyOf(e, s, pivot, cc))
				cvVal = args[2]
			} else {
				start = "(- 0 9223372036854775809)"
				cvVal = args[1]
			}
			cv, ok := closureOf(e, cvVal)
			if !ok {
				e.abort("btree iteration: the iterator is not a closure known at the call site")
			}
			if len(e.frames) > 0 {
				e.abort("btree iteration inside an inlined function")
			}
			k := e.iterCallOrd(cc)
			spec := e.con.IterLoops[k]
			if spec == nil {
				e.abort("iterator call %d of %s has no 'loop-call %d: invariant'", k, e.fn, k)
			}
			btWf(e, s, tree)
			envFor := func(st *State, cursor string) *SpecEnv {
				env := e.invEnv(st, &loopCtx{})
				env.vars["cursor"] = TV{S("%s", cursor), types.Typ[types.Int64]}
				env.vars["start"] = TV{S("%s", start), types.Typ[types.Int64]}
				return env
			}
			check := func(st *State, cursor, when string) {
				env := envFor(st, cursor)
				for _, inv := range spec.Invs {
					e.prove(fmt.Sprintf("loop-call%d/invariant-%s", k, when), fmt.Sprint(inv.Ord), append(append([]string{}, e.con.Tags...), inv.Tags...), st, inv.Expr, env, fmt.Sprintf("loop-call %d invariant %s", k, inv.Src))
				}
			}
			check(s, start, "entry")
			// havoc what the closure body may write
			h := s.clone()
			ef := newEffects()
			e.regionEffects(ef, cv.Fn.Blocks, 1)
			for i, fv := range cv.Fn.FreeVars {
				_ = fv
				if la, ok := cv.Bindings[i].(LocalAddr); ok {
					// captured cells written by the closure
					if closureStores(cv.Fn, i) {
						ef.cells[la.A] = true
					}
				}
			}
			if ef.all {
				e.havocAll(h)
			} else {
				if ef.allocs {
					e.allocGrow(h)
				}
				for _, fam := range sortedKeys(ef.fams) {
					sig := ef.fams[fam]
					e.hhavoc(h, fam, sig.Args, sig.Res)
				}
				e.loopFrameAssume(h, ef)
			}
			for _, a := range sortedAllocs(h.cells) {
				if ef.cells[a] {
					h.cells[a] = e.symbolic(h, a.Type().(*types.Pointer).Elem(), "hv_"+a.Comment)
				}
			}
			cur := e.symbolic(h, types.Typ[types.Int64], "cursor").(Scalar).T
			h.assume("(>= %s %s)", cur, start)
			henv := envFor(h, cur)
			for _, inv := range spec.Invs {
				g, facts := e.evalClause(inv.Expr, henv)
				h.pc = append(h.pc, facts...)
				h.assume("%s", g)
			}
			btWf(e, h, tree)
			// exit 1: exhausted
			x := h.clone()
			x.assume("(forall ((q Int)) (=> (> q %s) (not %s)))", cur, btHas(e, x, tree, "q"))
			x.trace = append(x.trace, fmt.Sprintf("loop-call%d:exhausted", k))
			rest(x)
			// step: next stored key above the cursor
			nxt := e.symbolic(h, types.Typ[types.Int64], "nextkey").(Scalar).T
			h.assume("(and (> %s %s) %s (forall ((q Int)) (=> (and (> q %s) (< q %s)) (not %s))))", nxt, cur, btHas(e, h, tree, nxt), cur, nxt, btHas(e, h, tree, "q"))
			item := btItem(e, h, tree, nxt)
			h.trace = append(h.trace, fmt.Sprintf("loop-call%d:step", k))
			for i, fv := range cv.Fn.FreeVars {
				h.regs[fv] = cv.Bindings[i]
			}
			h.regs[cv.Fn.Params[0]] = S("%s", item)
			savedPrev := h.prev
			e.frames = append(e.frames, frame{fn: cv.Fn, defers: len(h.defers), ret: func(s2 *State, res []Val) {
				s2.prev = savedPrev
				cont := res[0].(Scalar).T
				// the body returned true: invariant must hold again with the cursor advanced; path ends
				t := s2.clone()
				t.assume("%s", cont)
				check(t, nxt, "preserved")
				e.endPath()
				// the body returned false: iteration stops here
				f := s2
				f.assume("(not %s)", cont)
				f.trace = append(f.trace, fmt.Sprintf("loop-call%d:stopped", k))
				rest(f)
			}})
			e.blockFrom(h, cv.Fn.Blocks[0], 0, len(e.frames)*20)
			e.frames = e.frames[:len(e.frames)-1]
		}
	}
	extModelDoc[btPkg+"AscendGreaterOrEqual"] = "calls the iterator on the stored items with key >= pivot's key in ascending key order until it returns false"
	extModels[btPkg+"AscendGreaterOrEqual"] = ascend(true)
	extModelDoc[btPkg+"Ascend"] = "calls the iterator on all stored items in ascending key order until it returns false"
	extModels[btPkg+"Ascend"] = ascend(false)

	// isZeroTime(t): the same uninterpreted function the deterministic-pure model of (time.Time).IsZero uses
	specBuiltins["isZeroTime"] = func(env *SpecEnv, n SCall) TV {
		e := env.e
		v := env.eval(n.Args[0])
		terms, sorts := e.leaves(v.T, v.V)
		f := "|ext." + sanitize("(time.Time).IsZero") + "|"
		e.decl(fmt.Sprintf("(declare-fun %s (%s) Bool)", f, strings.Join(sorts, " ")))
		e.timeZeroAxiom(v.T)
		return TV{S("%s", app(f, terms...)), boolT}
	}
	// spec vocabulary
	specBuiltins["bthas"] = func(env *SpecEnv, n SCall) TV {
		t := env.refOf(env.eval(n.Args[0]))
		return TV{S("%s", btHas(env.e, env.cur, t, bterm(env.eval(n.Args[1])))), boolT}
	}
	specBuiltins["btitem"] = func(env *SpecEnv, n SCall) TV {
		t := env.refOf(env.eval(n.Args[0]))
		rt := env.e.w.resolveType("*database.ChangeInfo", env.pkg)
		return TV{S("%s", btItem(env.e, env.cur, t, bterm(env.eval(n.Args[1])))), rt}
	}
}

// does the closure store through its i-th free variable?
func closureStores(f *ssa.Function, i int) bool {
	fv := f.FreeVars[i]
	if refs := fv.Referrers(); refs != nil {
		for _, r := range *refs {
			switch x := r.(type) {
			case *ssa.Store:
				if x.Addr == fv {
					return true
				}
			case *ssa.FieldAddr, *ssa.IndexAddr:
				return true
			case *ssa.Call:
				return true
			}
		}
	}
	return false
}

// ordinal of an iterator call (calls whose callee has an iterating external model) in the function
func (e *Exec) iterCallOrd(cc *ssa.CallCommon) int {
	n := 0
	for _, b := range e.fn.Blocks {
		for _, ins := range b.Instrs {
			c, ok := ins.(*ssa.Call)
			if !ok {
				continue
			}
			sc := c.Call.StaticCallee()
			if sc == nil {
				continue
			}
			name := sc.String()
			if o := sc.Origin(); o != nil {
				name = o.String()
			}
			if !strings.HasSuffix(name, ".AscendGreaterOrEqual") && !strings.HasSuffix(name, ".Ascend") {
				continue
			}
			if &c.Call == cc {
				return n
			}
			n++
		}
	}
	return -1
}

// muArg: the address of a mutex-typed field named in a spec (l.mu): the same interior reference the models use
func (env *SpecEnv) muArg(x SExpr) string {
	if sel, ok := x.(SSel); ok {
		base := env.eval(sel.X)
		bt, ok := derefType(base.T)
		if ok {
			if _, isStruct := bt.Underlying().(*types.Struct); isStruct {
				return env.e.scalarOf(HeapAddr{Ref: bterm(base), Key: structFam(bt, sel.Name)}).T
			}
		}
	}
	env.fail("muheld: the argument must be a mutex field of a pointed-to struct (x.mu)")
	return ""
}
