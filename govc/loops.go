// loops.go: loop cutting at invariants, havoc sets, function entry/exit obligations, lemmas.
package main

import (
	"os"
	"fmt"
	"go/token"
	"go/types"
	"sort"
	"strings"

	"golang.org/x/tools/go/ssa"
)

func loopHeaders(f *ssa.Function) []*ssa.BasicBlock {
	var heads []*ssa.BasicBlock
	for _, b := range f.Blocks {
		for _, p := range b.Preds {
			if b.Dominates(p) {
				heads = append(heads, b)
				break
			}
		}
	}
	sort.Slice(heads, func(i, j int) bool { return heads[i].Index < heads[j].Index })
	return heads
}

func (e *Exec) registerLoops(f *ssa.Function) {
	for i, h := range loopHeaders(f) {
		e.loopIdx[h] = loopRef{fn: f, idx: i}
	}
}

func loopBlocks(h *ssa.BasicBlock) []*ssa.BasicBlock {
	in := map[*ssa.BasicBlock]bool{h: true}
	var work []*ssa.BasicBlock
	for _, p := range h.Preds {
		if h.Dominates(p) {
			work = append(work, p)
		}
	}
	for len(work) > 0 {
		b := work[len(work)-1]
		work = work[:len(work)-1]
		if in[b] {
			continue
		}
		in[b] = true
		work = append(work, b.Preds...)
	}
	var out []*ssa.BasicBlock
	for b := range in {
		out = append(out, b)
	}
	sort.Slice(out, func(i, j int) bool { return out[i].Index < out[j].Index })
	return out
}

func rootAlloc(v ssa.Value) *ssa.Alloc {
	switch x := v.(type) {
	case *ssa.Alloc:
		return x
	case *ssa.FieldAddr:
		return rootAlloc(x.X)
	case *ssa.IndexAddr:
		return rootAlloc(x.X)
	}
	return nil
}

// ---- write effects of a region (syntactic over-approximation) ----

type effects struct {
	cells    map[*ssa.Alloc]bool
	fams     map[string]famSig // heap families written
	freshOnly map[string]bool  // families written only through objects allocated inside the region
	all      bool
	allocs   bool
	seenFn   map[*ssa.Function]bool
}

func newEffects() *effects {
	return &effects{cells: map[*ssa.Alloc]bool{}, fams: map[string]famSig{}, freshOnly: map[string]bool{}, seenFn: map[*ssa.Function]bool{}}
}

func (ef *effects) addFam(fam string, sig famSig, fresh bool) {
	if _, ok := ef.fams[fam]; !ok {
		ef.fams[fam] = sig
		ef.freshOnly[fam] = fresh
	} else if !fresh {
		ef.freshOnly[fam] = false
	}
}

func (e *Exec) addTypeFams(ef *effects, prefix string, t types.Type, args []string, fresh bool) {
	e.disassemble(t, prefix, e.symbolicQuiet(t), func(p, so, _ string) {
		ef.addFam(p, famSig{args, so}, fresh)
	})
}

func (e *Exec) storeEffect(ef *effects, addr ssa.Value, t types.Type, region map[*ssa.BasicBlock]bool) {
	switch a := addr.(type) {
	case *ssa.Alloc:
		if allocIsObject(a) {
			if _, isArr := a.Type().(*types.Pointer).Elem().Underlying().(*types.Array); isArr {
				return
			}
			et := a.Type().(*types.Pointer).Elem()
			e.addTypeFams(ef, pointeeKey(et), et, []string{"Ref"}, region[a.Block()])
			return
		}
		ef.cells[a] = true
	case *ssa.FieldAddr:
		if ra := rootAlloc(a); ra != nil && !allocIsObject(ra) {
			ef.cells[ra] = true
			return
		}
		// heap field (possibly nested by-value struct fields)
		key, base := fieldKey(a)
		fresh := false
		if ra, ok := base.(*ssa.Alloc); ok && allocIsObject(ra) && region[ra.Block()] {
			fresh = true
		}
		if _, ok := base.(*ssa.IndexAddr); ok {
			e.addTypeFams(ef, key, t, []string{"Ref", "Int"}, false)
			return
		}
		e.addTypeFams(ef, key, t, []string{"Ref"}, fresh)
	case *ssa.IndexAddr:
		var et types.Type
		switch u := a.X.Type().Underlying().(type) {
		case *types.Slice:
			et = u.Elem()
		case *types.Pointer:
			et = u.Elem().Underlying().(*types.Array).Elem()
			if ra, ok := a.X.(*ssa.Alloc); ok && region[ra.Block()] {
				return // element of an array allocated inside the region (varargs temp)
			}
		}
		e.addTypeFams(ef, "arr_"+sanitize(et.String()), et, []string{"Ref", "Int"}, false)
	default:
		// store through a pointer value
		e.addTypeFams(ef, pointeeKey(t), t, []string{"Ref"}, false)
	}
}

// family key of a FieldAddr chain and its base value
func fieldKey(fa *ssa.FieldAddr) (string, ssa.Value) {
	st := fa.X.Type().Underlying().(*types.Pointer).Elem()
	fld := st.Underlying().(*types.Struct).Field(fa.Field)
	switch x := fa.X.(type) {
	case *ssa.FieldAddr:
		k, base := fieldKey(x)
		return k + "." + fld.Name(), base
	case *ssa.IndexAddr:
		var et types.Type
		switch u := x.X.Type().Underlying().(type) {
		case *types.Slice:
			et = u.Elem()
		case *types.Pointer:
			et = u.Elem().Underlying().(*types.Array).Elem()
		}
		return "arr_" + sanitize(et.String()) + "." + fld.Name(), x
	}
	return structFam(st, fld.Name()), fa.X
}

func (e *Exec) mapEffect(ef *effects, mt *types.Map) {
	fams, sigs := e.mapFamilies(mt)
	for i, f := range fams {
		ef.addFam(f, sigs[i], false)
	}
}

func (e *Exec) regionEffects(ef *effects, blocks []*ssa.BasicBlock, depth int) {
	region := map[*ssa.BasicBlock]bool{}
	for _, b := range blocks {
		region[b] = true
	}
	for _, lb := range blocks {
		for _, ins := range lb.Instrs {
			switch x := ins.(type) {
			case *ssa.Store:
				e.storeEffect(ef, x.Addr, x.Val.Type(), region)
			case *ssa.MapUpdate:
				e.mapEffect(ef, x.Map.Type().Underlying().(*types.Map))
			case *ssa.Alloc:
				if x.Heap {
					ef.allocs = true
				}
			case *ssa.MakeSlice, *ssa.MakeMap, *ssa.MakeInterface, *ssa.MakeClosure:
				ef.allocs = true
			case *ssa.Call:
				e.callEffects(ef, &x.Call, depth)
			case *ssa.Defer:
				e.callEffects(ef, &x.Call, depth)
			case *ssa.Send, *ssa.Go, *ssa.Select:
			}
		}
	}
}

func (e *Exec) callEffects(ef *effects, cc *ssa.CallCommon, depth int) {
	argCells := func() {
		for _, a := range cc.Args {
			if ra := rootAlloc(a); ra != nil && !allocIsObject(ra) {
				ef.cells[ra] = true
			}
		}
	}
	if b, ok := cc.Value.(*ssa.Builtin); ok {
		switch b.Name() {
		case "append":
			ef.allocs = true
			if st, ok := cc.Args[0].Type().Underlying().(*types.Slice); ok {
				e.addTypeFams(ef, "arr_"+sanitize(st.Elem().String()), st.Elem(), []string{"Ref", "Int"}, false)
			}
		case "delete":
			e.mapEffect(ef, cc.Args[0].Type().Underlying().(*types.Map))
		case "copy":
			if st, ok := cc.Args[0].Type().Underlying().(*types.Slice); ok {
				e.addTypeFams(ef, "arr_"+sanitize(st.Elem().String()), st.Elem(), []string{"Ref", "Int"}, false)
			}
		case "new":
			ef.allocs = true
		}
		return
	}
	ef.allocs = true
	conEffects := func(con *Contract) {
		if con.ModAll {
			ef.all = true
			return
		}
		// family names from the modifies entries, evaluated over dummy arguments
		tmp := newState()
		env := &SpecEnv{e: e, cur: tmp, old: tmp, vars: map[string]TV{}, pkg: con.Pkg, bound: map[string]bool{}}
		e.quietLoads++
		for i, n := range con.Params {
			env.vars[n] = TV{e.symbolic(nil, con.ParamTypes[i], "dummy"), con.ParamTypes[i]}
		}
		if con.IfaceRecvName != "" && len(con.Params) > 0 {
			if _, taken := env.vars[con.IfaceRecvName]; !taken {
				env.vars[con.IfaceRecvName] = TV{e.makeInterface(tmp, con.ParamTypes[0], env.vars[con.Params[0]].V), con.IfaceRecvType}
			}
		}
		func() {
			defer func() {
				if r := recover(); r != nil {
					ef.all = true
				}
			}()
			ms := e.resolveModifies(con.Modifies, false, env)
			for fam, sig := range ms.sigs {
				ef.addFam(fam, sig, false)
			}
		}()
		e.quietLoads--
	}
	if cc.IsInvoke() {
		name := "invoke " + cc.Method.FullName()
		if mods, ok := extModelMods[name]; ok {
			for f, sg := range mods {
				ef.addFam(f, sg, false)
			}
			return
		}
		if con, ok := e.w.contracts[name]; ok {
			conEffects(con)
			return
		}
		if cc.Method.Pkg() != nil && isPurePkg(cc.Method.Pkg().Path()) || cc.Method.Name() == "Error" {
			return
		}
		ef.all = true
		return
	}
	callee := cc.StaticCallee()
	if callee == nil {
		if mc, ok := cc.Value.(*ssa.MakeClosure); ok {
			callee = mc.Fn.(*ssa.Function)
		}
	}
	if callee == nil {
		// callback contracts
		if e.con != nil {
			for _, cb := range e.con.Callbacks {
				if cb.ModAll {
					ef.all = true
				}
				_ = cb
			}
			if len(e.con.Callbacks) > 0 {
				// modifies of callbacks are resolved in the real environment at the call; here: conservative family scan
				for _, cb := range e.con.Callbacks {
					env := &SpecEnv{e: e, cur: e.entry, old: e.entry, vars: map[string]TV{}, pkg: e.con.Pkg, fn: e.fn, bound: map[string]bool{}}
					for k, v := range e.entryVars {
						env.vars[k] = v
					}
					func() {
						defer func() {
							if r := recover(); r != nil {
								ef.all = true
							}
						}()
						ms := e.resolveModifies(cb.Modifies, false, env)
						for fam, sig := range ms.sigs {
							ef.addFam(fam, sig, false)
						}
					}()
				}
				return
			}
		}
		ef.all = true
		return
	}
	name := callee.String()
	if o := callee.Origin(); o != nil {
		name = o.String()
	}
	if fn, ok := extModelModsFn[name]; ok {
		for f, sg := range fn(e, cc) {
			ef.addFam(f, sg, false)
		}
		argCells()
		return
	}
	if mods, ok := extModelMods[name]; ok && mods != nil {
		for f, sg := range mods {
			ef.addFam(f, sg, false)
		}
		argCells()
		return
	}
	if _, ok := extModels[name]; ok {
		argCells()
		return
	}
	forceInline := e.con != nil && matchAny(name, e.con.InlineCallees)
	if con, ok := e.w.contracts[name]; ok && !forceInline && !(con.Inline && callee.Blocks != nil) {
		conEffects(con)
		argCells()
		return
	}
	pkgPath := funcPkgPath(callee)
	if isPurePkg(pkgPath) && !forceInline {
		argCells()
		return
	}
	if callee.Blocks == nil || !strings.HasPrefix(pkgPath, "github.com/yorkie-team/yorkie") {
		ef.all = true
		return
	}
	if ef.seenFn[callee] {
		return
	}
	ef.seenFn[callee] = true
	if depth > 6 {
		ef.all = true
		return
	}
	argCells()
	// free variables of closures: cells of the enclosing function
	if mc, ok := cc.Value.(*ssa.MakeClosure); ok {
		for _, b := range mc.Bindings {
			if ra := rootAlloc(b); ra != nil && !allocIsObject(ra) {
				ef.cells[ra] = true
			}
		}
	}
	e.regionEffects(ef, callee.Blocks, depth+1)
}

var extModelMods = map[string]map[string]famSig{}

// effects that depend on the call's arguments (e.g. the memdb table)
var extModelModsFn = map[string]func(e *Exec, cc *ssa.CallCommon) map[string]famSig{}

// ---- loop head ----

func (e *Exec) loopContext(s *State, b *ssa.BasicBlock) *loopCtx {
	lc := &loopCtx{}
	for _, ins := range b.Instrs {
		switch x := ins.(type) {
		case *ssa.Next:
			if it, ok := s.regs[x.Iter].(Iter); ok {
				lc.seen = s.seenFn[it.ID]
			}
		case *ssa.UnOp:
			if al, ok := x.X.(*ssa.Alloc); ok && al.Comment == "rangeindex" && x.Op == token.MUL && lc.iter == "" {
				if v, ok := s.cells[al].(Scalar); ok {
					lc.iter = fmt.Sprintf("(+ %s 1)", v.T)
				}
			}
		}
	}
	return lc
}

func (e *Exec) invEnv(s *State, lc *loopCtx) *SpecEnv {
	env := &SpecEnv{e: e, cur: s, old: e.entry, vars: map[string]TV{}, params: e.entryVars, pkg: e.con.Pkg, fn: e.fn, loop: lc, bound: map[string]bool{}}
	return env
}

func (e *Exec) atLoopHead(s *State, b *ssa.BasicBlock, lr loopRef, depth int) {
	if lr.fn != e.fn {
		e.abort("loop inside an inlined function %s: give it a contract", lr.fn)
	}
	spec := e.con.Loops[lr.idx]
	if spec == nil {
		// a loop the contract says nothing about (e.g. added by a change): cut with the invariant `true` - everything the
		// body may write is unknown afterwards. Sound; clauses that depend on what the loop computes then FAIL by name
		// instead of the whole function being reported as undecidable.
		e.note("loop-without-invariant", fmt.Sprintf("loop %d of %s: cut with invariant true", lr.idx, e.fn))
		spec = &LoopSpec{}
	}
	e.curPos = b.Instrs[0].Pos()
	lc := e.loopContext(s, b)
	if e.inLoopBody[b] {
		// back edge: invariant must be preserved; path ends
		env := e.invEnv(s, lc)
		for _, inv := range spec.Invs {
			e.prove(fmt.Sprintf("loop%d/invariant-preserved", lr.idx), fmt.Sprint(inv.Ord), append(append([]string{}, e.con.Tags...), inv.Tags...), s, inv.Expr, env, "loop "+fmt.Sprint(lr.idx)+" invariant "+inv.Src)
		}
		if hs := e.headState[b]; hs != nil {
			senv := e.invEnv(s, lc)
			senv.head = hs
			for _, st := range spec.Steps {
				e.prove(fmt.Sprintf("loop%d/step", lr.idx), fmt.Sprint(st.Ord), append(append([]string{}, e.con.Tags...), st.Tags...), s, st.Expr, senv, "loop "+fmt.Sprint(lr.idx)+" step "+st.Src)
			}
		}
		e.loopFrameCheck(s, b, lr.idx, "preserved")
		e.preservesGoals(s, lr.idx, spec, func(fam, g string) {
			e.obligeK(fmt.Sprintf("loop%d/preserves", lr.idx), fam, e.con.Tags, s, g, "loop "+fmt.Sprint(lr.idx)+" preserves clause: "+fam+" unchanged since loop entry on the named locations")
		})
		if spec.Decreases != nil {
			d := bterm(env.eval(spec.Decreases))
			d0 := e.decAtHead[b]
			e.obligeK(fmt.Sprintf("loop%d/decreases", lr.idx), "", e.con.Tags, s, fmt.Sprintf("(and (>= %s 0) (< %s %s))", d0, d, d0), "loop "+fmt.Sprint(lr.idx)+" decreases "+spec.DecSrc)
		}
		e.obls = append(e.obls, Oblig{Key: fmt.Sprintf("%s/vacuity@backedge%d", shortFunc(e.fn.String()), lr.idx), Kind: "vacuity-backedge", Func: e.fn.String(), Pre: append([]string{}, s.pc...), Goal: "false", Canary: true, Path: e.paths, Desc: "some path through the body of loop " + fmt.Sprint(lr.idx) + " must be feasible", Trace: append([]string{}, s.trace...)})
		e.endPath()
		return
	}
	// entry: invariant must hold
	e.loopEntry[lr.idx] = s.clone()
	env := e.invEnv(s, lc)
	for _, inv := range spec.Invs {
		e.prove(fmt.Sprintf("loop%d/invariant-entry", lr.idx), fmt.Sprint(inv.Ord), append(append([]string{}, e.con.Tags...), inv.Tags...), s, inv.Expr, env, "loop "+fmt.Sprint(lr.idx)+" invariant "+inv.Src)
	}
	// havoc
	h := s.clone()
	// the call log: the iterations not on this path made an unknown number of calls to the callees named in the body
	var lnames []string
	for _, lb := range loopBlocks(b) {
		for _, ins := range lb.Instrs {
			if ci, ok := ins.(ssa.CallInstruction); ok {
				if nm := callLogName(ci.Common()); nm != "" {
					lnames = append(lnames, nm)
				}
			}
		}
	}
	h.cutLoops = append(h.cutLoops, cutLoop{Head: b, Pos: len(h.calls), Names: lnames})
	if h.iterMark == nil {
		h.iterMark = map[*ssa.BasicBlock]iterMark{}
	}
	h.iterMark[b] = iterMark{Pos: len(h.calls), Cuts: len(h.cutLoops)}
	ef := e.loopEffectsOf(b)
	e.loopFrameCheck(s, b, lr.idx, "entry")
	entryAlloc := e.cur(h, "$alloc", []string{"Ref"}, "Bool")
	if ef.all {
		e.havocAll(h)
	} else {
		if ef.allocs {
			e.allocGrow(h)
		}
		for _, fam := range sortedKeys(ef.fams) {
			sig := ef.fams[fam]
			old := e.cur(h, fam, sig.Args, sig.Res)
			nw := e.hhavoc(h, fam, sig.Args, sig.Res)
			if ef.freshOnly[fam] && len(sig.Args) == 1 {
				h.assume("(forall ((r Ref)) (! (=> (%s r) (= (%s r) (%s r))) :pattern ((%s r))))", entryAlloc, nw, old, nw)
			}
		}
	}
	e.loopFrameAssume(h, ef)
	e.preservesGoals(h, lr.idx, spec, func(fam, g string) { h.assume("%s", g) })
	for _, a := range sortedAllocs(h.cells) {
		if ef.cells[a] || ef.all && a.Heap && cellReachableByUnknownCode(a) {
			h.cells[a] = e.symbolic(h, a.Type().(*types.Pointer).Elem(), "hv_"+a.Comment)
		}
	}
	for _, ins := range b.Instrs {
		if n, ok := ins.(*ssa.Next); ok {
			if it, ok := h.regs[n.Iter].(Iter); ok {
				nm := e.freshName("seen")
				_, _, ks := mapFam(it.MapTy)
				e.decl(fmt.Sprintf("(declare-fun |%s| (%s) Bool)", nm, ks))
				h.seenFn[it.ID] = "|" + nm + "|"
			}
		}
	}
	e.rangeIndexFact(h, b)
	lc = e.loopContext(h, b)
	henv := e.invEnv(h, lc)
	for _, inv := range spec.Invs {
		g, facts := e.evalClause(inv.Expr, henv)
		h.pc = append(h.pc, facts...)
		h.assume("%s", g)
	}
	if spec.Decreases != nil {
		e.decAtHead[b] = bterm(henv.eval(spec.Decreases))
	}
	h.trace = append(h.trace, fmt.Sprintf("loop%d:head", lr.idx))
	if e.headState == nil {
		e.headState = map[*ssa.BasicBlock]*State{}
	}
	e.headState[b] = h.clone()
	e.inLoopBody[b] = true
	savedLoop := e.curLoop
	e.curLoop = lc
	e.blockFrom(h, b, 0, depth)
	e.curLoop = savedLoop
	delete(e.inLoopBody, b)
}

// preserves clauses: the named locations have the values they had at loop entry
func (e *Exec) preservesGoals(s *State, idx int, spec *LoopSpec, emit func(fam, goal string)) {
	if len(spec.Preserves) == 0 {
		return
	}
	le := e.loopEntry[idx]
	env := &SpecEnv{e: e, cur: le, old: e.entry, vars: map[string]TV{}, params: e.entryVars, pkg: e.con.Pkg, fn: e.fn, bound: map[string]bool{}}
	ms := e.resolveModifies(spec.Preserves, false, env)
	for _, fam := range sortedKeys(ms.conds) {
		sig := ms.sigs[fam]
		old := e.cur(le, fam, sig.Args, sig.Res)
		nw := e.cur(s, fam, sig.Args, sig.Res)
		if old == nw || len(sig.Args) == 0 {
			continue
		}
		var binders, as []string
		for i, so := range sig.Args {
			binders = append(binders, fmt.Sprintf("(a%d %s)", i, so))
			as = append(as, fmt.Sprintf("a%d", i))
		}
		emit(fam, fmt.Sprintf("(forall (%s) %s)", strings.Join(binders, " "), e.withPat(fmt.Sprintf("(=> %s (= %s %s))", ms.cond(fam, as), app(nw, as...), app(old, as...)), nw, as)))
	}
}

func (e *Exec) loopEffectsOf(b *ssa.BasicBlock) *effects {
	if ef, ok := e.loopEffects[b]; ok {
		return ef
	}
	ef := newEffects()
	e.regionEffects(ef, loopBlocks(b), 0)
	e.loopEffects[b] = ef
	return ef
}

func (e *Exec) entryModSet() *modSet {
	if e.entryMods == nil {
		menv := &SpecEnv{e: e, cur: e.entry, old: e.entry, vars: map[string]TV{}, pkg: e.con.Pkg, bound: map[string]bool{}}
		for k, v := range e.entryVars {
			menv.vars[k] = v
		}
		e.entryMods = e.resolveModifies(e.con.Modifies, false, menv)
	}
	return e.entryMods
}

// the function's frame as an implicit loop invariant: locations outside the modifies clause that were allocated at
// function entry keep their entry values at every loop head
func (e *Exec) frameGoal(s *State, fam string) (string, bool) {
	sig := e.fams[fam]
	if len(sig.Args) == 0 || sig.Args[0] != "Ref" || fam == "$alloc" || strings.HasPrefix(fam, "$unbox_") || strings.HasPrefix(fam, "$it.") || strings.HasPrefix(fam, "$txn.") {
		return "", false
	}
	ms := e.entryModSet()
	entryAlloc := e.cur(e.entry, "$alloc", []string{"Ref"}, "Bool")
	old := e.cur(e.entry, fam, sig.Args, sig.Res)
	nw := e.cur(s, fam, sig.Args, sig.Res)
	if old == nw {
		return "", false
	}
	var binders, as []string
	for i, so := range sig.Args {
		binders = append(binders, fmt.Sprintf("(a%d %s)", i, so))
		as = append(as, fmt.Sprintf("a%d", i))
	}
	return fmt.Sprintf("(forall (%s) %s)", strings.Join(binders, " "), e.withPat(fmt.Sprintf("(=> (and (%s a0) (not %s)) (= %s %s))", entryAlloc, ms.cond(fam, as), app(nw, as...), app(old, as...)), nw, as)), true
}

func (e *Exec) loopFrameCheck(s *State, b *ssa.BasicBlock, idx int, when string) {
	if e.con.ModAll || s.epoch != e.entry.epoch {
		return
	}
	ef := e.loopEffectsOf(b)
	if ef.all {
		return
	}
	for _, fam := range sortedKeys(ef.fams) {
		if g, ok := e.frameGoal(s, fam); ok {
			e.obligeK(fmt.Sprintf("loop%d/frame-%s", idx, when), fam, e.con.Tags, s, g, "implicit invariant: only locations in the modifies clause change ("+fam+")")
		}
	}
}

func (e *Exec) loopFrameAssume(h *State, ef *effects) {
	if e.con.ModAll || ef.all || h.epoch != e.entry.epoch {
		return
	}
	for _, fam := range sortedKeys(ef.fams) {
		if g, ok := e.frameGoal(h, fam); ok {
			h.assume("%s", g)
		}
	}
}

// writes to the map being ranged over: allowed for existing keys and for deleting the current key only
func (e *Exec) checkRangeMutation(s *State, mt *types.Map, ref, key string, isDelete bool) {
	// conservative and cheap: only checked against iterators of the same map type that are live in this state
	for v, it := range s.regs {
		iter, ok := it.(Iter)
		if !ok || !types.Identical(iter.MapTy, mt) {
			continue
		}
		if _, isRange := v.(*ssa.Range); !isRange {
			continue
		}
		if !e.rangeLive(v.(*ssa.Range)) {
			continue
		}
		if isDelete {
			continue // deleting while ranging is well-defined in Go; the seen-set model stays sound for "each remaining key at most once"
		}
		e.obligeK("safety/range-mutation", "", nil, s, fmt.Sprintf("(=> (= %s %s) %s)", ref, iter.MapRef, e.mapHas(s, mt, ref, key)), "no insertion of new keys into the map being ranged over, at "+e.posStr(token.NoPos))
	}
}

func (e *Exec) rangeLive(r *ssa.Range) bool {
	// the range is live iff we are inside a loop whose header consumes it
	for b := range e.inLoopBody {
		if !e.inLoopBlocks(b, e.curBlock) {
			continue
		}
		for _, ins := range b.Instrs {
			if n, ok := ins.(*ssa.Next); ok && n.Iter == r {
				return true
			}
		}
	}
	return false
}

func (e *Exec) inLoopBlocks(h, b *ssa.BasicBlock) bool {
	set, ok := e.loopSets[h]
	if !ok {
		set = map[*ssa.BasicBlock]bool{}
		for _, x := range loopBlocks(h) {
			set[x] = true
		}
		e.loopSets[h] = set
	}
	return set[b]
}

// ---- function exit ----

func (e *Exec) exitEnv(s *State, res []Val) *SpecEnv {
	env := &SpecEnv{e: e, cur: s, old: e.entry, vars: map[string]TV{}, pkg: e.con.Pkg, bound: map[string]bool{}}
	for k, v := range e.entryVars {
		env.vars[k] = v
	}
	var rv Val
	if len(res) == 1 {
		rv = res[0]
	} else if len(res) > 1 {
		rv = Tuple{E: res}
	}
	if rv != nil {
		bindResults(env, e.con.Sig, rv)
	}
	return env
}

func (e *Exec) atExit(s *State, res []Val) {
	con := e.con
	e.curPos = token.NoPos
	env := e.exitEnv(s, res)
	for _, en := range con.Ensures {
		e.prove("ensures", en.Label(), en.Tags, s, en.Expr, env, "ensures "+en.Src)
	}
	e.frameObligations(s)
	if len(s.defers) > 0 {
		// defers that were not run (return without rundefers cannot happen in go/ssa)
	}
	e.obls = append(e.obls, Oblig{Key: shortFunc(e.fn.String()) + "/vacuity@exit", Kind: "vacuity", Func: e.fn.String(), Pre: append([]string{}, s.pc...), Goal: "false", Canary: true, Path: e.paths, Desc: "path condition at exit must be satisfiable on at least one path", Trace: append([]string{}, s.trace...)})
	e.endPath()
}

func (e *Exec) frameObligations(s *State) {
	con := e.con
	menv := &SpecEnv{e: e, cur: e.entry, old: e.entry, vars: map[string]TV{}, pkg: con.Pkg, bound: map[string]bool{}}
	for k, v := range e.entryVars {
		menv.vars[k] = v
	}
	ms := e.resolveModifies(con.Modifies, false, menv)
	if !con.ModAll && s.epoch != e.entry.epoch {
		e.obligeK("frame", "havoc-all", con.Tags, s, "false", "an unknown call may modify anything, but the contract does not say 'modifies *'")
		return
	}
	entryAlloc := e.cur(e.entry, "$alloc", []string{"Ref"}, "Bool")
	for _, fam := range sortedKeys(s.ver) {
		if fam == "$alloc" || strings.HasPrefix(fam, "$unbox_") || strings.HasPrefix(fam, "$txn.") || strings.HasPrefix(fam, "$it.") || strings.HasPrefix(fam, "$mu.") {
			continue // allocation state, immutable boxes, transaction-local and iterator-local ghost state, held mutexes
		}
		if con.ModAll && !storeGhostFam(fam) {
			continue // 'modifies *' covers the whole heap - but NOT the modelled stores and ghost variables: those are listed
		}
		if s.ver[fam] == e.entry.ver[fam] {
			continue
		}
		sig := e.fams[fam]
		old := e.cur(e.entry, fam, sig.Args, sig.Res)
		nw := s.ver[fam]
		if len(sig.Args) == 0 {
			if len(ms.conds[fam]) > 0 {
				continue
			}
			e.obligeK("frame", fam, con.Tags, s, fmt.Sprintf("(= %s %s)", nw, old), "ghost "+fam+" is not in the modifies clause")
			continue
		}
		var binders, as []string
		for i, so := range sig.Args {
			binders = append(binders, fmt.Sprintf("(a%d %s)", i, so))
			as = append(as, fmt.Sprintf("a%d", i))
		}
		guard := "true"
		if sig.Args[0] == "Ref" {
			guard = fmt.Sprintf("(%s a0)", entryAlloc)
		}
		goal := fmt.Sprintf("(forall (%s) (=> (and %s (not %s)) (= %s %s)))", strings.Join(binders, " "), guard, ms.cond(fam, as), app(nw, as...), app(old, as...))
		e.obligeK("frame", fam, con.Tags, s, goal, "only locations in the modifies clause change: "+fam)
	}
}

// ---- verification of one function ----

type FuncResult struct {
	Func     string
	Contract *Contract
	Obls     []Oblig
	Paths    int
	Errors   []string
	Stats    map[string]map[string]int
	Used     map[string]bool
	Checked  bool
	Decls    []string
	declOwner map[string]string
	axioms   []axiomTerm
}

func (w *World) verifyFunc(con *Contract) (fr *FuncResult) {
	f := con.Fn
	e := newExec(w, f, con)
	e.checked = con.Checked
	if con.PathLimit > 0 {
		e.pathLimit = con.PathLimit
	}
	fr = &FuncResult{Func: con.Key, Contract: con, Checked: con.Checked}
	defer func() {
		if r := recover(); r != nil {
			if ab, ok := r.(execAbort); ok {
				fr.Errors = append(fr.Errors, ab.msg)
			} else {
				panic(r)
			}
		}
		fr.Obls = e.obls
		fr.Paths = e.paths
		fr.Errors = append(fr.Errors, e.errors...)
		fr.Stats = e.callStats
		fr.Used = e.usedContracts
		fr.Decls = e.decls
		fr.declOwner = e.declOwner
		fr.axioms = e.axiomTerms
	}()
	if f == nil || f.Blocks == nil {
		e.abort("no body for %s", con.Key)
	}
	for _, tn := range con.StableTypes {
		t := w.resolveType(tn, con.Pkg)
		if t == nil {
			// Type.field: one field of a struct type
			if i := strings.LastIndex(tn, "."); i > 0 {
				if bt := w.resolveType(tn[:i], con.Pkg); bt != nil {
					if st, ok := bt.Underlying().(*types.Struct); ok {
						found := false
						for k := 0; k < st.NumFields(); k++ {
							if st.Field(k).Name() == tn[i+1:] {
								found = true
							}
						}
						if found {
							e.stablePrefixes = append(e.stablePrefixes, structFam(bt, tn[i+1:]))
							continue
						}
					}
				}
			}
		}
		if t == nil {
			e.abort("stable-types: unknown type %s", tn)
		}
		if mt, ok := t.Underlying().(*types.Map); ok {
			k := sanitize(mt.String())
			e.stablePrefixes = append(e.stablePrefixes, "has_"+k, "val_"+k, "len_"+k)
		} else if st, ok := t.(*types.Slice); ok {
			// the element arrays of this slice type
			e.stablePrefixes = append(e.stablePrefixes, "arr_"+sanitize(st.Elem().String()))
		} else {
			e.stablePrefixes = append(e.stablePrefixes, sanitize(t.String()))
		}
	}
	e.registerLoops(f)
	nLoops := len(loopHeaders(f))
	var missingLoops []int
	for k := range con.Loops {
		if k >= nLoops {
			missingLoops = append(missingLoops, k)
		}
	}
	sort.Ints(missingLoops)
	e.axioms()
	s := newState()
	// a loop the contract speaks about no longer exists (the code was restructured): its clauses are reported as ONE failed
	// obligation per loop, and the rest of the function is still verified against the remaining clauses
	for _, k := range missingLoops {
		e.obligeK(fmt.Sprintf("loop%d/missing", k), "", e.con.Tags, s, "false", fmt.Sprintf("the contract has clauses for loop %d but %s has %d loops", k, shortFunc(f.String()), nLoops))
	}
	e.entryVars = map[string]TV{}
	for i, p := range f.Params {
		v := e.symbolic(s, p.Type(), p.Name())
		s.regs[p] = v
		if i < len(con.Params) {
			e.entryVars[con.Params[i]] = TV{v, p.Type()}
		}
		e.entryVars[p.Name()] = TV{v, p.Type()}
	}
	if os.Getenv("GOVC_TRACE") != "" {
		fmt.Println("TRACE aliases", con.Key, con.ParamAliases, con.Params)
	}
	for alias, j := range con.ParamAliases {
		if j < len(f.Params) {
			e.entryVars[alias] = TV{s.regs[f.Params[j]], f.Params[j].Type()}
		}
	}
	if con.IfaceRecvName != "" && len(f.Params) > 0 {
		if _, taken := e.entryVars[con.IfaceRecvName]; !taken || con.IfaceRecvName != f.Params[0].Name() {
			e.entryVars[con.IfaceRecvName] = TV{e.makeInterface(s, f.Params[0].Type(), s.regs[f.Params[0]]), con.IfaceRecvType}
		}
	}
	for _, fv := range f.FreeVars {
		s.regs[fv] = e.symbolic(s, fv.Type(), fv.Name())
	}
	env := &SpecEnv{e: e, cur: s, old: s, vars: e.entryVars, pkg: con.Pkg, bound: map[string]bool{}}
	for _, l := range con.Lets {
		e.lets[l.Name] = env.eval(l.Expr)
	}
	for _, r := range append(append([]Clause{}, con.Requires...), con.Assumes...) {
		g, facts := e.evalClause(r.Expr, env)
		s.pc = append(s.pc, facts...)
		s.assume("%s", g)
	}
	e.entry = s.clone()
	if len(con.Stable) > 0 {
		// "stable" locations: assumed not written by abstracted callees (configuration wired at start-up)
		e.stableLocs = map[string][]string{}
		senv := &SpecEnv{e: e, cur: s, old: s, vars: e.entryVars, pkg: con.Pkg, bound: map[string]bool{}}
		for _, ent := range con.Stable {
			if ent.Kind != "field" {
				e.abort("stable: only obj.field items are supported (%s)", ent.Src)
			}
			ov := senv.eval(ent.Obj)
			bt, isPtr := derefType(ov.T)
			st, ok := bt.Underlying().(*types.Struct)
			if !isPtr || !ok {
				e.abort("stable %s: not a field of a struct pointer", ent.Src)
			}
			ref := senv.refOf(ov)
			for i := 0; i < st.NumFields(); i++ {
				if st.Field(i).Name() != ent.Field {
					continue
				}
				e.disassemble(st.Field(i).Type(), structFam(bt, ent.Field), e.symbolicQuiet(st.Field(i).Type()), func(p, so, _ string) {
					e.stableLocs[p] = append(e.stableLocs[p], ref)
				})
			}
		}
	}
	e.obls = append(e.obls, Oblig{Key: shortFunc(f.String()) + "/vacuity@requires", Kind: "vacuity", Func: f.String(), Pre: append([]string{}, s.pc...), Goal: "false", Canary: true, Desc: "the precondition must be satisfiable"})
	e.blockFrom(s, f.Blocks[0], 0, 0)
	return
}

// state-independent axioms about uninterpreted spec functions
func (e *Exec) axioms() {
	for i, ax := range e.w.axioms {
		tmp := newState()
		env := &SpecEnv{e: e, cur: tmp, old: tmp, vars: map[string]TV{}, pkg: ax.Pkg, bound: map[string]bool{}}
		term := env.evalBool(ax.Expr)
		e.axiomTerms = append(e.axiomTerms, axiomTerm{idx: i, term: term})
	}
}

// model axioms added on demand (once per function run)
func (e *Exec) axiomOnce(name, term string) {
	if e.axiomNames == nil {
		e.axiomNames = map[string]bool{}
	}
	if e.axiomNames[name] {
		return
	}
	e.axiomNames[name] = true
	e.axiomTerms = append(e.axiomTerms, axiomTerm{idx: 100000 + len(e.axiomTerms), term: term})
}

type axiomTerm struct {
	idx  int
	term string
}

// ---- lemmas: ghost call sequences over contracts only ----

func (w *World) verifyLemma(lm *Lemma) (fr *FuncResult) {
	e := newExec(w, nil, &Contract{Pkg: lm.Pkg, Tags: lm.Tags, Loops: map[int]*LoopSpec{}, IterLoops: map[int]*LoopSpec{}, Callbacks: map[string]*CallbackSpec{}})
	e.name = "lemma " + lm.Pkg.Name() + "." + lm.Name
	fr = &FuncResult{Func: e.name, Contract: e.con}
	defer func() {
		if r := recover(); r != nil {
			if ab, ok := r.(execAbort); ok {
				fr.Errors = append(fr.Errors, ab.msg)
			} else {
				panic(r)
			}
		}
		fr.Obls = e.obls
		fr.Paths = 1
		fr.Stats = e.callStats
		fr.Used = e.usedContracts
		fr.Decls = e.decls
		fr.declOwner = e.declOwner
		fr.axioms = e.axiomTerms
	}()
	e.axioms()
	s := newState()
	vars := map[string]TV{}
	for _, p := range lm.Params {
		t := w.resolveType(p.Type, lm.Pkg)
		if t == nil {
			e.abort("lemma %s: unknown type %s", lm.Name, p.Type)
		}
		vars[p.Name] = TV{e.symbolic(s, t, p.Name), t}
	}
	e.entry = s.clone()
	e.entryVars = vars
	nAssert := 0
	called := false
	for _, st := range lm.Stmts {
		env := &SpecEnv{e: e, cur: s, old: e.entry, vars: vars, pkg: lm.Pkg, bound: map[string]bool{}}
		switch st.Kind {
		case "var":
			t := w.resolveType(st.Type, lm.Pkg)
			if t == nil {
				e.abort("lemma %s: unknown type %s", lm.Name, st.Type)
			}
			vars[st.Names[0]] = TV{e.symbolic(s, t, st.Names[0]), t}
		case "assume":
			g, facts := e.evalClause(st.Expr, env)
			s.pc = append(s.pc, facts...)
			s.assume("%s", g)
			if !called {
				e.entry = s.clone() // assumptions before the first call are the lemma's precondition: old() refers to that state
			}
		case "assert":
			e.prove("lemma", fmt.Sprint(nAssert), st.Tags, s, st.Expr, env, "assert "+st.Src)
			nAssert++
			g, facts := e.evalClause(st.Expr, env)
			s.pc = append(s.pc, facts...)
			s.assume("%s", g)
		case "call":
			called = true
			con, args := e.lemmaCallee(st, env)
			var names = st.Names
			e.applyContract(s, con, args, func(s2 *State, v Val) {
				rs := con.Sig.Results()
				if rs.Len() == 1 && len(names) >= 1 {
					vars[names[0]] = TV{v, rs.At(0).Type()}
				} else if rs.Len() > 1 {
					for i, n := range names {
						if i < rs.Len() && n != "_" {
							vars[n] = TV{v.(Tuple).E[i], rs.At(i).Type()}
						}
					}
				}
			})
		}
	}
	e.obls = append(e.obls, Oblig{Key: shortFunc(e.name) + "/vacuity@exit", Kind: "vacuity", Func: e.name, Pre: append([]string{}, s.pc...), Goal: "false", Canary: true, Desc: "lemma assumptions must be satisfiable"})
	return
}

func (e *Exec) lemmaCallee(st LemmaStmt, env *SpecEnv) (*Contract, []Val) {
	w := e.w
	callee := st.Callee
	var args []Val
	var tf *types.Func
	i := strings.LastIndex(callee, ".")
	if i < 0 {
		tf, _ = env.pkg.Scope().Lookup(callee).(*types.Func)
	} else {
		prefix, name := callee[:i], callee[i+1:]
		if x, err := parseSpec(prefix); err == nil {
			if id, ok := x.(SId); !ok || env.vars[id.Name].T != nil {
				rv := env.eval(x)
				obj, _, _ := types.LookupFieldOrMethod(rv.T, true, env.pkgFor(rv.T), name)
				if f, ok := obj.(*types.Func); ok {
					tf = f
					args = append(args, rv.V)
				}
			}
		}
		if tf == nil {
			if p := w.pkgByName(prefix, env.pkg); p != nil {
				tf, _ = p.Scope().Lookup(name).(*types.Func)
			}
		}
	}
	if tf == nil {
		e.abort("lemma call: cannot resolve %s", callee)
	}
	key := ""
	if fn := w.prog.FuncValue(tf); fn != nil {
		key = fn.String()
	} else {
		key = "invoke " + tf.FullName()
	}
	con := w.contracts[key]
	if con == nil {
		e.abort("lemma call: %s has no contract", key)
	}
	sig := tf.Type().(*types.Signature)
	for k, a := range st.Args {
		tv := env.eval(a)
		if tv.V == nil && tv.T == nil {
			tv = TV{zero(sig.Params().At(k).Type()), nil}
		}
		args = append(args, tv.V)
	}
	// missing variadic argument: empty slice
	if sig.Variadic() && len(st.Args) == sig.Params().Len()-1 {
		args = append(args, zero(sig.Params().At(sig.Params().Len()-1).Type()))
	}
	return con, args
}

// rangeIndexFact: in a compiler-generated "range over slice/array/int" loop the hidden index cell is written only by the
// header's increment, starts at -1 and the body runs only while index+1 < n, with n computed once before the loop. So at
// the head  -1 <= index < max(n, 0)  holds by construction; it is assumed after the havoc (not a user invariant).
func (e *Exec) rangeIndexFact(h *State, b *ssa.BasicBlock) {
	var cell *ssa.Alloc
	var load *ssa.UnOp
	var inc *ssa.BinOp
	for _, ins := range b.Instrs {
		switch x := ins.(type) {
		case *ssa.UnOp:
			if al, ok := x.X.(*ssa.Alloc); ok && al.Comment == "rangeindex" && x.Op == token.MUL && load == nil {
				cell, load = al, x
			}
		case *ssa.BinOp:
			if x.Op == token.ADD && load != nil && x.X == load && inc == nil {
				inc = x
			}
			if x.Op == token.LSS && inc != nil && x.X == inc {
				// the bound must be a value defined outside the loop (a register the loop cannot change)
				if v, ok := h.cells[cell].(Scalar); ok {
					if n, ok := h.regs[x.Y]; ok {
						if ns, ok := n.(Scalar); ok {
							h.assume("(and (<= (- 1) %s) (or (= %s (- 1)) (< %s %s)))", v.T, v.T, v.T, ns.T)
						}
					} else if c, ok := x.Y.(*ssa.Const); ok {
						h.assume("(and (<= (- 1) %s) (or (= %s (- 1)) (< %s %d)))", v.T, v.T, v.T, c.Int64())
					}
				}
				return
			}
		}
	}
}

// A heap-allocated local that is kept as a cell (its address is never stored as a value) can change behind the back of the
// function only through code that got hold of its address: a call the address was passed to, or a closure that captured it
// and is itself handed to other code. A closure that is only deferred or called directly by the function itself is executed
// by the executor with the binding - it gives unknown code no access.
func cellReachableByUnknownCode(a *ssa.Alloc) bool {
	refs := a.Referrers()
	if refs == nil {
		return true
	}
	var addrUsed func(v ssa.Value, depth int) bool
	addrUsed = func(v ssa.Value, depth int) bool {
		rs := v.Referrers()
		if rs == nil {
			return true
		}
		for _, r := range *rs {
			switch x := r.(type) {
			case *ssa.UnOp, *ssa.DebugRef:
			case *ssa.Store:
				if x.Val == v {
					return true
				}
			case *ssa.FieldAddr:
				if depth > 4 || addrUsed(x, depth+1) {
					return true
				}
			case *ssa.IndexAddr:
				if depth > 4 || addrUsed(x, depth+1) {
					return true
				}
			case *ssa.MakeClosure:
				mrs := x.Referrers()
				if mrs == nil {
					return true
				}
				for _, mr := range *mrs {
					switch y := mr.(type) {
					case *ssa.Defer:
						if y.Call.Value != ssa.Value(x) {
							return true // the closure is an ARGUMENT of the deferred call
						}
					case *ssa.Call:
						if y.Call.Value != ssa.Value(x) {
							return true
						}
					case *ssa.DebugRef:
					default:
						return true
					}
				}
			default:
				return true // passed to a call, sliced, converted, ...
			}
		}
		return false
	}
	return addrUsed(a, 0)
}
