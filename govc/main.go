package main

import (
	"flag"
	"fmt"
	"os"
	"path/filepath"
	"runtime"
	"sort"
	"strings"
	"sync"
	"time"
)

type OblResult struct {
	O   *Oblig
	R   SolveResult
	SMT string
}

type RunResult struct {
	Funcs   []*FuncResult
	Results []OblResult
	ByKey   map[string][]int
	Elapsed time.Duration
}

func hasTag(tags []string, t string) bool {
	for _, x := range tags {
		if x == t {
			return true
		}
	}
	return false
}

// the cone: roots plus every in-repo contract they use, transitively
func (w *World) verifyCone(roots []*Contract, lemmas []*Lemma, sv *Solver, verbose bool) *RunResult {
	t0 := time.Now()
	rr := &RunResult{ByKey: map[string][]int{}}
	done := map[string]bool{}
	var queue []*Contract
	for _, c := range roots {
		if !done[c.Key] {
			done[c.Key] = true
			queue = append(queue, c)
		}
	}
	var frs []*FuncResult
	for _, lm := range lemmas {
		fr := w.verifyLemma(lm)
		frs = append(frs, fr)
		for k := range fr.Used {
			if c := w.contracts[k]; c != nil && !done[k] {
				done[k] = true
				queue = append(queue, c)
			}
		}
	}
	for len(queue) > 0 {
		c := queue[0]
		queue = queue[1:]
		if c.Trusted || c.Interface || c.Fn == nil || c.Fn.Blocks == nil {
			frs = append(frs, &FuncResult{Func: c.Key, Contract: c})
			continue
		}
		fr := w.verifyFunc(c)
		frs = append(frs, fr)
		for k := range fr.Used {
			if cc := w.contracts[k]; cc != nil && !done[k] {
				done[k] = true
				queue = append(queue, cc)
			}
		}
	}
	rr.Funcs = frs
	// solve
	type job struct {
		fr     *FuncResult
		o      *Oblig
		ix     *sliceIndex
	}
	var jobs []job
	for _, fr := range frs {
		if len(fr.Obls) == 0 {
			continue
		}
		ix := buildSliceIndex(fr.Decls, fr.declOwner, fr.axioms)
		for i := range fr.Obls {
			o := &fr.Obls[i]
			jobs = append(jobs, job{fr: fr, o: o, ix: ix})
		}
	}
	rr.Results = make([]OblResult, len(jobs))
	var wg sync.WaitGroup
	sem := make(chan struct{}, runtime.NumCPU())
	for i := range jobs {
		wg.Add(1)
		sem <- struct{}{}
		go func(i int) {
			defer wg.Done()
			defer func() { <-sem }()
			j := jobs[i]
			if !j.o.Canary && triviallyValid(j.o.Goal) {
				// valid by constant folding alone (e.g. an implication whose call-count antecedent is false on this path)
				rr.Results[i] = OblResult{O: j.o, R: SolveResult{Status: "unsat", Solver: "syntactic"}}
				return
			}
			smt := j.ix.smtText(j.o, false)
			r := sv.solveVariants4(j.ix.smtTextLight(j.o, 2), j.ix.smtTextLight(j.o, 1), j.ix.smtText(j.o, true), smt, j.o.Canary)
			if r.Status == "timeout" && !j.o.Canary && sv.retryFactor > 1 && !sv.noRetry[j.o.Key] {
				// second chance with a longer limit: a goal that ran out of time under load is not reported before it had it
				// (keys of recorded known findings are exempt - they are expected to fail and would only cost time)
				long := *sv
				long.timeout = sv.timeout * time.Duration(sv.retryFactor)
				long.noCache = true
				r2 := long.solve(j.ix.smtText(j.o, true), false)
				if r2.Status == "unsat" {
					r2.Solver += "(retry)"
					r2.Millis += r.Millis
					r = r2
				}
			}
			rr.Results[i] = OblResult{O: j.o, R: r, SMT: smt}
		}(i)
	}
	wg.Wait()
	for i, r := range rr.Results {
		rr.ByKey[r.O.Key] = append(rr.ByKey[r.O.Key], i)
	}
	rr.Elapsed = time.Since(t0)
	return rr
}

func cmdVerify(args []string) int {
	fs := flag.NewFlagSet("verify", flag.ExitOnError)
	repo := fs.String("repo", "/repo", "repository root")
	pkgs := fs.String("pkgs", "", "comma-separated package patterns")
	only := fs.String("func", "", "verify only contracts whose key contains this substring")
	tag := fs.String("tag", "", "verify only contracts carrying this tag")
	verbose := fs.Bool("v", false, "print every obligation")
	timeout := fs.Int("timeout", 10, "solver timeout per obligation, seconds")
	keep := fs.String("keep", "", "directory to keep failing SMT files in")
	nocache := fs.Bool("nocache", false, "do not use the solver result cache")
	mutant := fs.String("mutant", "", "file|old|new  (in-memory overlay)")
	verif := fs.String("verif", "/verif", "verif directory")
	fs.Parse(args)
	overlay := map[string][]byte{}
	if *mutant != "" {
		parts := strings.SplitN(*mutant, "|", 3)
		src, err := os.ReadFile(parts[0])
		if err != nil || !strings.Contains(string(src), parts[1]) {
			fmt.Fprintln(os.Stderr, "mutant pattern not found")
			return 2
		}
		overlay[parts[0]] = []byte(strings.Replace(string(src), parts[1], parts[2], 1))
	}
	t0 := time.Now()
	w, err := loadWorld(*repo, strings.Split(*pkgs, ","), overlay)
	if err != nil {
		fmt.Fprintln(os.Stderr, "load:", err)
		return 2
	}
	if err := w.loadContracts(*verif); err != nil {
		fmt.Fprintln(os.Stderr, "contracts:", err)
		return 2
	}
	for _, b := range w.checkImmutables() {
		fmt.Println("IMMUTABLE-VIOLATION:", b)
	}
	for _, b := range w.checkClosed() {
		fmt.Println("CLOSED-VIOLATION:", b)
	}
	fmt.Printf("loaded in %.1fs: %d contracts, %d spec funcs, %d lemmas\n", time.Since(t0).Seconds(), len(w.contracts), len(w.specFuncs), len(w.lemmas))
	for _, m := range w.missing {
		fmt.Println("MISSING:", m)
	}
	var roots []*Contract
	for _, k := range sortedKeys(w.contracts) {
		c := w.contracts[k]
		if c.External || c.Interface {
			continue
		}
		if *only != "" && !strings.Contains(k, *only) {
			continue
		}
		if *tag != "" && !contractHasTag(c, *tag) {
			continue
		}
		roots = append(roots, c)
	}
	var lemmas []*Lemma
	for _, lm := range w.lemmas {
		if *only != "" && !strings.Contains("lemma "+lm.Name, *only) {
			continue
		}
		if *tag != "" && !hasTag(lm.Tags, *tag) {
			continue
		}
		lemmas = append(lemmas, lm)
	}
	work := filepath.Join(*verif, ".work", "verify")
	os.MkdirAll(work, 0o755)
	sv := &Solver{workDir: work, timeout: time.Duration(*timeout) * time.Second, cacheDir: filepath.Join(*verif, ".work", "cache"), noCache: *nocache}
	rr := w.verifyCone(roots, lemmas, sv, *verbose)
	return report(rr, *verbose, *keep)
}

func contractHasTag(c *Contract, t string) bool {
	if hasTag(c.Tags, t) {
		return true
	}
	for _, cl := range c.Ensures {
		if hasTag(cl.Tags, t) {
			return true
		}
	}
	for _, cl := range c.Requires {
		if hasTag(cl.Tags, t) {
			return true
		}
	}
	for _, a := range c.AssertAts {
		if hasTag(a.Clause.Tags, t) {
			return true
		}
	}
	for _, l := range c.Loops {
		for _, cl := range l.Invs {
			if hasTag(cl.Tags, t) {
				return true
			}
		}
	}
	return false
}

func report(rr *RunResult, verbose bool, keep string) int {
	bad := 0
	for _, fr := range rr.Funcs {
		c := fr.Contract
		status := ""
		if c != nil && (c.Trusted || c.Interface) && len(fr.Obls) == 0 {
			fmt.Printf("-- %s: assumed (trusted=%v interface=%v)\n", shortFunc(fr.Func), c.Trusted, c.Interface)
			continue
		}
		n, ok, canaryBad, feasible := 0, 0, 0, 0
		beTotal, beFeasible := map[string]int{}, map[string]int{}
		var fails []string
		for i := range rr.Results {
			r := &rr.Results[i]
			if r.O.Func != fr.Func && !(fr.Contract != nil && fr.Contract.Fn == nil && r.O.Func == fr.Func) {
				continue
			}
			if r.O.Canary && keep != "" && os.Getenv("KEEPCANARY") != "" {
				os.MkdirAll(keep, 0o755)
				os.WriteFile(filepath.Join(keep, "canary_"+sanitize(r.O.Key)+fmt.Sprintf("_p%d_%s.smt2", r.O.Path, r.R.Status)), []byte(r.SMT), 0o644)
			}
			if r.O.Canary {
				if r.O.Kind == "vacuity" && strings.HasSuffix(r.O.Key, "@exit") {
					if r.R.Status != "unsat" {
						feasible++
					}
					continue
				}
				if r.O.Kind == "vacuity-pre" {
					continue
				}
				if r.O.Kind == "vacuity-backedge" {
					beTotal[r.O.Key]++
					if r.R.Status != "unsat" {
						beFeasible[r.O.Key]++
					}
					continue
				}
				if r.R.Status == "unsat" && (r.O.Kind != "vacuity-post" || postVacuous(rr, r)) {
					canaryBad++
					fails = append(fails, fmt.Sprintf("   VACUOUS %s (%s)", r.O.Key, r.O.Desc))
				}
				continue
			}
			n++
			if r.R.Status == "unsat" {
				ok++
				if verbose {
					fmt.Printf("   ok   %-60s %s %dms\n", r.O.Key, r.R.Solver, r.R.Millis)
				}
			} else {
				fails = append(fails, fmt.Sprintf("   FAIL %-60s path %d: %s [%s by %s, %dms] %s", r.O.Key, r.O.Path, r.O.Desc, r.R.Status, r.R.Solver, r.R.Millis, strings.Join(r.O.Trace, " ")))
				if keep != "" {
					os.MkdirAll(keep, 0o755)
					os.WriteFile(filepath.Join(keep, sanitize(r.O.Key)+fmt.Sprintf("_p%d.smt2", r.O.Path)), []byte(r.SMT), 0o644)
				}
			}
		}
		if len(fr.Errors) > 0 {
			status = " ERRORS"
		}
		if fr.Paths > 0 && feasible == 0 {
			fails = append(fails, "   VACUOUS: no feasible path reaches an exit")
		}
		for k, t := range beTotal {
			if beFeasible[k] == 0 {
				fails = append(fails, fmt.Sprintf("   VACUOUS %s: none of the %d paths through the loop body is feasible (contradictory invariants or callee contracts)", k, t))
			}
		}
		fmt.Printf("== %s: %d paths, %d/%d discharged%s\n", shortFunc(fr.Func), fr.Paths, ok, n, status)
		for _, er := range fr.Errors {
			fmt.Printf("   ERROR %s\n", er)
			bad++
		}
		sort.Strings(fails)
		for _, f := range fails {
			fmt.Println(f)
			bad++
		}
		if verbose {
			for _, kind := range sortedKeys(fr.Stats) {
				for _, cal := range sortedKeys(fr.Stats[kind]) {
					fmt.Printf("   call %-28s %s x%d\n", kind, shortFunc(cal), fr.Stats[kind][cal])
				}
			}
		}
	}
	var idxs []int
	for i := range rr.Results {
		idxs = append(idxs, i)
	}
	sort.Slice(idxs, func(a, b int) bool { return rr.Results[idxs[a]].R.Millis > rr.Results[idxs[b]].R.Millis })
	for k := 0; k < 6 && k < len(idxs); k++ {
		r := rr.Results[idxs[k]]
		if r.R.Millis > 1500 {
			fmt.Printf("   slow %-60s path %d %s %s %dms\n", r.O.Key, r.O.Path, r.R.Status, r.R.Solver, r.R.Millis)
		}
	}
	fmt.Printf("elapsed %.1fs\n", rr.Elapsed.Seconds())
	if bad > 0 {
		return 1
	}
	return 0
}

func main() {
	// represent type aliases by the types they denote (heap families are keyed by type names)
	os.Setenv("GODEBUG", "gotypesalias=0")
	loadMemTables("/verif")
	if len(os.Args) < 2 {
		fmt.Fprintln(os.Stderr, "usage: govc verify|check ...")
		os.Exit(2)
	}
	switch os.Args[1] {
	case "verify":
		os.Exit(cmdVerify(os.Args[2:]))
	case "check":
		os.Exit(cmdCheck(os.Args[2:]))
	default:
		fmt.Fprintln(os.Stderr, "unknown command")
		os.Exit(2)
	}
}

// was the path already infeasible before the contract was applied? (then the post canary says nothing)
// postVacuous decides whether an unsat answer to a "the assumptions after applying this contract are satisfiable" canary
// is evidence that the CONTRACT made the path contradictory. A function with thousands of paths has infeasible ones (branch
// combinations that exclude each other); on such a path the canary before the call may merely run out of time while the one
// after it - with more facts to work with - is refuted, and which of the two happens depends on the machine's load. So a
// single refuted instance counts only with positive evidence (the canary before the call on the same path was SATISFIABLE);
// without it the call site counts when it is refuted on EVERY path that reaches it while not every path was already
// contradictory before the call - the systematic case the guard exists for.
func postVacuous(rr *RunResult, r *OblResult) bool {
	postKey := r.O.Key
	i := strings.LastIndex(postKey, "/post")
	if i < 0 {
		return true
	}
	// positive evidence on the same path
	pre := postKey[:i] + "/pre" + postKey[i+5:]
	for _, j := range rr.ByKey[pre] {
		if rr.Results[j].R.Status == "sat" && rr.Results[j].O.Path == r.O.Path {
			return true
		}
	}
	// otherwise: the call site as a whole (every path, whatever the running number of the canary on that path)
	postPrefix, prePrefix := postKey[:i]+"/post", postKey[:i]+"/pre"
	allPreUnsat, anyPre, allPostUnsat := true, false, true
	for k, idxs := range rr.ByKey {
		isPost, isPre := strings.HasPrefix(k, postPrefix), strings.HasPrefix(k, prePrefix)
		if !isPost && !isPre {
			continue
		}
		for _, j := range idxs {
			st := rr.Results[j].R.Status
			if isPre {
				anyPre = true
				if st != "unsat" {
					allPreUnsat = false
				}
			} else if st != "unsat" {
				allPostUnsat = false
			}
		}
	}
	if anyPre && allPreUnsat {
		return false
	}
	return allPostUnsat
}

func preUnsat(rr *RunResult, postKey string) bool {
	i := strings.LastIndex(postKey, "/post")
	if i < 0 {
		return false
	}
	pre := postKey[:i] + "/pre" + postKey[i+5:]
	for _, j := range rr.ByKey[pre] {
		if rr.Results[j].R.Status == "unsat" {
			return true
		}
	}
	return false
}
