// memdb.go: assumed contract of hashicorp/go-memdb as used by server/backend/database/memory.
// Every table is viewed as a finite map from a VIEW KEY (fields of the row, from /verif/contracts/memdb.tables) to the
// stored row object. Ghost families per table T with key sorts K*:
//     $db.T.has : K* -> Bool      $db.T.row : K* -> Ref          (the committed store)
//     $txn.T.has / $txn.T.row                                    (the view inside the running transaction)
// Txn() starts the transaction view at the committed store; First/Get read the view; Insert/Delete/DeleteAll update it;
// Commit publishes it; Abort is a no-op. Rows handed out ARE the stored objects (go-memdb does not copy).
package main

import (
	"fmt"
	"go/ast"
	"go/constant"
	"go/token"
	"go/types"
	"os"
	"path/filepath"
	"strconv"
	"strings"

	"golang.org/x/tools/go/ssa"
)

type memTable struct {
	Name    string   // table string, e.g. "documents"
	RowType string   // e.g. *database.DocInfo
	Key     []string // view key fields
	Indexes map[string][]string
	rowT    types.Type // resolved lazily
}

var memTables = map[string]*memTable{}

func loadMemTables(verif string) {
	data, err := os.ReadFile(filepath.Join(verif, "contracts", "memdb.tables"))
	if err != nil {
		return
	}
	for _, ln := range strings.Split(string(data), "\n") {
		f := strings.Fields(ln)
		if len(f) == 0 || strings.HasPrefix(f[0], "#") {
			continue
		}
		switch f[0] {
		case "table": // table <name> <rowtype> key <Field>...
			t := &memTable{Name: f[1], RowType: f[2], Indexes: map[string][]string{}}
			for i := 3; i < len(f); i++ {
				if f[i] != "key" {
					t.Key = append(t.Key, f[i])
				}
			}
			memTables[t.Name] = t
		case "index": // index <table> <index> <Field>...
			if t := memTables[f[1]]; t != nil {
				t.Indexes[f[2]] = f[3:]
			}
		}
	}
}

// the string a value denotes: a constant, or a package-level variable initialised with a string literal
// (assumed never reassigned: the table names in indexes.go are such variables)
func (e *Exec) staticString(v ssa.Value) (string, bool) {
	if c, ok := v.(*ssa.Const); ok && c.Value != nil && c.Value.Kind() == constant.String {
		return constant.StringVal(c.Value), true
	}
	if u, ok := v.(*ssa.UnOp); ok && u.Op == token.MUL {
		if g, ok := u.X.(*ssa.Global); ok {
			if p := e.w.byPath[g.Pkg.Pkg.Path()]; p != nil {
				for _, f := range p.Syntax {
					for _, d := range f.Decls {
						gd, ok := d.(*ast.GenDecl)
						if !ok || gd.Tok != token.VAR {
							continue
						}
						for _, sp := range gd.Specs {
							vs := sp.(*ast.ValueSpec)
							for i, n := range vs.Names {
								if n.Name == g.Name() && i < len(vs.Values) {
									if bl, ok := vs.Values[i].(*ast.BasicLit); ok && bl.Kind == token.STRING {
										if sv, err := strconv.Unquote(bl.Value); err == nil {
											return sv, true
										}
									}
								}
							}
						}
					}
				}
			}
		}
	}
	return "", false
}

func (e *Exec) memTableOf(v ssa.Value) *memTable {
	name, ok := e.staticString(v)
	if !ok {
		e.abort("memdb: table argument is not a static string at %s", e.posStr(0))
	}
	t := memTables[name]
	if t == nil {
		e.abort("memdb: table %q is not described in contracts/memdb.tables", name)
	}
	if t.rowT == nil {
		dbp := e.w.byPath["github.com/yorkie-team/yorkie/server/backend/database"]
		if dbp == nil {
			e.abort("memdb: package database not loaded")
		}
		t.rowT = e.w.resolveType(t.RowType, dbp.Types)
		if t.rowT == nil {
			// row types are written relative to package database
			t.rowT = e.w.resolveType(strings.Replace(t.RowType, "database.", "", 1), dbp.Types)
		}
		if t.rowT == nil {
			e.abort("memdb: unknown row type %s", t.RowType)
		}
	}
	return t
}

func (e *Exec) memResolveAll() {
	dbp := e.w.byPath["github.com/yorkie-team/yorkie/server/backend/database"]
	if dbp == nil {
		e.abort("memdb: package database not loaded")
	}
	for _, t := range memTables {
		if t.rowT == nil {
			t.rowT = e.w.resolveType(strings.Replace(t.RowType, "database.", "", 1), dbp.Types)
			if t.rowT == nil {
				e.abort("memdb: unknown row type %s", t.RowType)
			}
		}
	}
}

func (t *memTable) rowStruct() (types.Type, *types.Struct) {
	bt, _ := derefType(t.rowT)
	return bt, bt.Underlying().(*types.Struct)
}

func (t *memTable) fieldSort(name string) string {
	_, st := t.rowStruct()
	for i := 0; i < st.NumFields(); i++ {
		if st.Field(i).Name() == name {
			if _, agg := st.Field(i).Type().Underlying().(*types.Struct); agg {
				return "Key" // struct-valued index field (time.Time): compared through an uninterpreted key image
			}
			return sortOf(st.Field(i).Type())
		}
	}
	return "Str"
}

// the index image of a struct-valued field (go-memdb's TimeFieldIndex encodes UnixNano): an uninterpreted function of
// the value's leaves. For time.Time the image of every IsZero value equals the image of time.Time{} (UnixNano depends
// only on sec() and nsec(), which IsZero tests).
func (e *Exec) idxKey(t types.Type, v Val) string {
	terms, sorts := e.leaves(t, v)
	f := "|$idxkey." + sanitize(t.String()) + "|"
	e.decl(fmt.Sprintf("(declare-fun %s (%s) Int)", f, strings.Join(sorts, " ")))
	if t.String() == "time.Time" {
		z := "|ext." + sanitize("(time.Time).IsZero") + "|"
		e.decl(fmt.Sprintf("(declare-fun %s (%s) Bool)", z, strings.Join(sorts, " ")))
		e.timeZeroAxiom(t)
		var bs, ns []string
		for i, so := range sorts {
			bs = append(bs, fmt.Sprintf("(k%d %s)", i, so))
			ns = append(ns, fmt.Sprintf("k%d", i))
		}
		zt, _ := e.leaves(t, zero(t))
		e.axiomOnce("idxkey.time.zero", fmt.Sprintf("(forall (%s) (! (=> %s (= %s %s)) :pattern (%s)))", strings.Join(bs, " "), app(z, ns...), app(f, ns...), app(f, zt...), app(f, ns...)))
	}
	return app(f, terms...)
}

func (t *memTable) keySorts() []string {
	var out []string
	for _, k := range t.Key {
		out = append(out, t.fieldSort(k))
	}
	return out
}

// scalar field of a row object in state s (time.Time fields etc. are opaque aggregates: only scalar fields are indexable here)
func (e *Exec) rowField(s *State, t *memTable, row, field string) string {
	bt, st := t.rowStruct()
	for i := 0; i < st.NumFields(); i++ {
		if st.Field(i).Name() == field {
			if _, agg := st.Field(i).Type().Underlying().(*types.Struct); agg {
				e.quietLoads++
				v := e.load(s, HeapAddr{Ref: row, Key: structFam(bt, field)}, st.Field(i).Type())
				e.quietLoads--
				return e.idxKey(st.Field(i).Type(), v)
			}
			return fmt.Sprintf("(%s %s)", e.cur(s, structFam(bt, field), []string{"Ref"}, sortOf(st.Field(i).Type())), row)
		}
	}
	e.abort("memdb: row type %s has no field %s", t.RowType, field)
	return ""
}

func (e *Exec) rowKey(s *State, t *memTable, row string) []string {
	var ks []string
	for _, k := range t.Key {
		ks = append(ks, e.rowField(s, t, row, k))
	}
	return ks
}

func memFam(space string, t *memTable, what string) string { return "$" + space + "." + t.Name + "." + what }

func (e *Exec) memHas(s *State, space string, t *memTable, key []string) string {
	return app(e.cur(s, memFam(space, t, "has"), t.keySorts(), "Bool"), key...)
}
func (e *Exec) memRow(s *State, space string, t *memTable, key []string) string {
	return app(e.cur(s, memFam(space, t, "row"), t.keySorts(), "Ref"), key...)
}

func qvars(t *memTable, prefix string) (binders string, names []string) {
	var bs []string
	for i, so := range t.keySorts() {
		n := fmt.Sprintf("%s%d", prefix, i)
		bs = append(bs, fmt.Sprintf("(%s %s)", n, so))
		names = append(names, n)
	}
	return strings.Join(bs, " "), names
}

// representation invariant of a table view: a stored row is non-nil, allocated, and carries its own key
func (e *Exec) memWf(s *State, space string, t *memTable) {
	bs, ns := qvars(t, "k")
	row := e.memRow(s, space, t, ns)
	var eqs []string
	for i, k := range t.Key {
		eqs = append(eqs, fmt.Sprintf("(= %s %s)", e.rowField(s, t, row, k), ns[i]))
	}
	fn := e.cur(s, memFam(space, t, "row"), t.keySorts(), "Ref")
	body := fmt.Sprintf("(=> %s (and (not (= %s null)) %s %s))", e.memHas(s, space, t, ns), row, e.isAlloc(s, row), strings.Join(eqs, " "))
	s.assume("(forall (%s) %s)", bs, e.withPat(body, fn, ns))
}

// unbox the variadic index arguments: []interface{} of boxed strings / ints
// static types of the values boxed into a variadic []interface{} argument
func varargTypes(v ssa.Value) []types.Type {
	sl, ok := v.(*ssa.Slice)
	if !ok {
		return nil
	}
	al, ok := sl.X.(*ssa.Alloc)
	if !ok || al.Referrers() == nil {
		return nil
	}
	out := map[int64]types.Type{}
	var maxI int64 = -1
	for _, r := range *al.Referrers() {
		ia, ok := r.(*ssa.IndexAddr)
		if !ok || ia.Referrers() == nil {
			continue
		}
		c, ok := ia.Index.(*ssa.Const)
		if !ok {
			continue
		}
		idx := c.Int64()
		for _, rr := range *ia.Referrers() {
			if st, ok := rr.(*ssa.Store); ok {
				switch mv := st.Val.(type) {
				case *ssa.MakeInterface:
					out[idx] = mv.X.Type()
				case *ssa.ChangeInterface:
					out[idx] = mv.X.Type()
				}
				if idx > maxI {
					maxI = idx
				}
			}
		}
	}
	res := make([]types.Type, maxI+1)
	for k, t := range out {
		res[k] = t
	}
	return res
}

func (e *Exec) memArgs(s *State, va Val, sorts []string, vtypes []types.Type) []string {
	return e.memArgsT(s, va, sorts, vtypes, nil)
}

func (e *Exec) memArgsT(s *State, va Val, sorts []string, vtypes []types.Type, elemT types.Type) []string {
	sv, ok := va.(SliceV)
	if !ok {
		e.abort("memdb: variadic arguments are not a slice")
	}
	var n int
	if _, err := fmt.Sscanf(sv.Len, "%d", &n); err != nil {
		e.abort("memdb: number of index arguments is not a constant")
	}
	anyT := types.NewInterfaceType(nil, nil)
	var out []string
	for i := 0; i < n && i < len(sorts); i++ {
		el := e.load(s, ElemAddr{Arr: sv.Arr, Idx: addT(sv.Off, fmt.Sprint(i)), Key: "arr_" + sanitize(anyT.String())}, anyT).(*Agg)
		ref := el.F[1].(Scalar).T
		// the static type of the boxed value: from the MakeInterface that filled the variadic slot
		var bt types.Type
		if i < len(vtypes) {
			bt = vtypes[i]
		}
		if bt == nil {
			e.abort("memdb: index argument %d has no statically known type at %s", i, e.posStr(0))
		}
		if _, agg := bt.Underlying().(*types.Struct); agg && sorts[i] == "Key" {
			out = append(out, e.idxKey(bt, e.unbox(s, bt, ref)))
			continue
		}
		if sortOf(bt) != sorts[i] {
			e.abort("memdb: index argument %d has sort %s, the index field has sort %s at %s", i, sortOf(bt), sorts[i], e.posStr(0))
		}
		out = append(out, fmt.Sprintf("(%s %s)", e.cur(s, "$unbox_"+sanitize(bt.String()), []string{"Ref"}, sorts[i]), ref))
	}
	return out
}

// facts: row matches the index arguments (prefix of the index fields)
func (e *Exec) memMatch(s *State, t *memTable, index string, row string, args []string) string {
	fields, ok := t.Indexes[index]
	if !ok {
		e.abort("memdb: index %q of table %q is not described in contracts/memdb.tables", index, t.Name)
	}
	var cs []string
	for i, a := range args {
		if i >= len(fields) || a == "" {
			break
		}
		so := t.fieldSort(fields[i])
		if so != "Str" && so != "Int" && so != "Bool" && so != "Key" {
			e.abort("memdb: index field %s of sort %s is not modelled", fields[i], so)
		}
		cs = append(cs, fmt.Sprintf("(= %s %s)", e.rowField(s, t, row, fields[i]), a))
	}
	if len(cs) == 0 {
		return "true"
	}
	if len(cs) == 1 {
		return cs[0]
	}
	return "(and " + strings.Join(cs, " ") + ")"
}

func (e *Exec) indexSorts(t *memTable, index string) []string {
	var out []string
	for _, f := range t.Indexes[index] {
		out = append(out, t.fieldSort(f))
	}
	return out
}

func constStr(e *Exec, v ssa.Value) string {
	sv, ok := e.staticString(v)
	if !ok {
		e.abort("memdb: index name is not a static string at %s", e.posStr(0))
	}
	return sv
}

// is the index exactly the view key (then a nil result means: no such row)?
func sameFields(a, b []string) bool {
	if len(a) != len(b) {
		return false
	}
	for i := range a {
		if a[i] != b[i] {
			return false
		}
	}
	return true
}

const memdbPkg = "github.com/hashicorp/go-memdb."

func memAllFams() map[string]famSig {
	out := map[string]famSig{}
	for _, t := range memTables {
		for _, sp := range []string{"txn", "db"} {
			out[memFam(sp, t, "has")] = famSig{nil, "Bool"}
			out[memFam(sp, t, "row")] = famSig{nil, "Ref"}
		}
	}
	return out
}

func initMemdbModels() {
	txnP := "(*" + memdbPkg + "Txn)."
	extModelDoc["(*"+memdbPkg+"MemDB).Txn"] = "returns a fresh transaction whose view is the committed store"
	extModels["(*"+memdbPkg+"MemDB).Txn"] = func(e *Exec, s *State, args []Val, cc *ssa.CallCommon, setRes func(*State, Val), rest func(*State)) {
		e.memResolveAll()
		for _, name := range sortedKeys(memTables) {
			t := memTables[name]
			ks := t.keySorts()
			// alias the view to the committed store
			s.ver[memFam("txn", t, "has")] = e.cur(s, memFam("db", t, "has"), ks, "Bool")
			s.ver[memFam("txn", t, "row")] = e.cur(s, memFam("db", t, "row"), ks, "Ref")
			e.famDecl(memFam("txn", t, "has"), ks, "Bool")
			e.famDecl(memFam("txn", t, "row"), ks, "Ref")
		}
		// a new transaction: nothing committed by it yet
		e.hwrite(s, "$g.committed", nil, "Bool", nil, "false")
		setRes(s, S("%s", e.freshRef(s, "txn")))
		rest(s)
	}
	extModelDoc[txnP+"First"] = "err != nil => nil; otherwise nil or a STORED row (the stored object itself) that matches the index arguments; for an index equal to the table's view key, nil means no row has that key"
	extModels[txnP+"First"] = func(e *Exec, s *State, args []Val, cc *ssa.CallCommon, setRes func(*State, Val), rest func(*State)) {
		t := e.memTableOf(cc.Args[1])
		index := constStr(e, cc.Args[2])
		e.memWf(s, "txn", t)
		rt := cc.Signature().Results()
		raw := e.symbolic(s, rt.At(0).Type(), "raw").(*Agg)
		er := e.symbolic(s, rt.At(1).Type(), "err").(*Agg)
		tag, ref, etag := raw.F[0].(Scalar).T, raw.F[1].(Scalar).T, er.F[0].(Scalar).T
		ias := e.memArgs(s, args[3], e.indexSorts(t, index), varargTypes(cc.Args[3]))
		tid := typeID(t.rowT)
		e.w.typeNames[tid] = t.rowT
		s.assume("(=> (not (= %s 0)) (= %s 0))", etag, tag)
		key := e.rowKey(s, t, ref)
		s.assume("(=> (not (= %s 0)) (and (= %s %d) (not (= %s null)) %s (= %s %s) %s))", tag, tag, tid, ref, e.memHas(s, "txn", t, key), e.memRow(s, "txn", t, key), ref, e.memMatch(s, t, index, ref, ias))
		if sameFields(t.Indexes[index], t.Key) && len(ias) == len(t.Key) {
			s.assume("(=> (and (= %s 0) (= %s 0)) (not %s))", etag, tag, e.memHas(s, "txn", t, ias))
			s.assume("(=> (not (= %s 0)) (= %s %s))", tag, ref, e.memRow(s, "txn", t, ias))
		}
		setRes(s, Tuple{E: []Val{raw, er}})
		rest(s)
	}
	extModelDoc[txnP+"Insert"] = "on success the object becomes the row stored under its view key in the transaction view (replacing a previous one); on error the view is unchanged"
	extModels[txnP+"Insert"] = func(e *Exec, s *State, args []Val, cc *ssa.CallCommon, setRes func(*State, Val), rest func(*State)) {
		t := e.memTableOf(cc.Args[1])
		obj := args[2].(*Agg)
		ref := obj.F[1].(Scalar).T
		er := e.symbolic(s, cc.Signature().Results().At(0).Type(), "inserr").(*Agg)
		etag := er.F[0].(Scalar).T
		e.safety("memdb-insert-type", s, fmt.Sprintf("(and (= %s %d) (not (= %s null)))", obj.F[0].(Scalar).T, typeID(t.rowT), ref))
		key := e.rowKey(s, t, ref)
		ks := t.keySorts()
		oldHas, oldRow := e.memHas(s, "txn", t, key), e.memRow(s, "txn", t, key)
		e.hwrite(s, memFam("txn", t, "has"), ks, "Bool", key, fmt.Sprintf("(ite (= %s 0) true %s)", etag, oldHas))
		e.hwrite(s, memFam("txn", t, "row"), ks, "Ref", key, fmt.Sprintf("(ite (= %s 0) %s %s)", etag, ref, oldRow))
		setRes(s, er)
		rest(s)
	}
	extModelDoc[txnP+"Delete"] = "on success no row is stored under the object's view key any more"
	extModels[txnP+"Delete"] = func(e *Exec, s *State, args []Val, cc *ssa.CallCommon, setRes func(*State, Val), rest func(*State)) {
		t := e.memTableOf(cc.Args[1])
		obj := args[2].(*Agg)
		ref := obj.F[1].(Scalar).T
		er := e.symbolic(s, cc.Signature().Results().At(0).Type(), "delerr").(*Agg)
		etag := er.F[0].(Scalar).T
		key := e.rowKey(s, t, ref)
		e.hwrite(s, memFam("txn", t, "has"), t.keySorts(), "Bool", key, fmt.Sprintf("(ite (= %s 0) false %s)", etag, e.memHas(s, "txn", t, key)))
		setRes(s, er)
		rest(s)
	}
	extModelDoc[txnP+"DeleteAll"] = "on success exactly the stored rows matching the index arguments are removed from the view"
	extModels[txnP+"DeleteAll"] = func(e *Exec, s *State, args []Val, cc *ssa.CallCommon, setRes func(*State, Val), rest func(*State)) {
		t := e.memTableOf(cc.Args[1])
		index := constStr(e, cc.Args[2])
		e.memWf(s, "txn", t)
		ias := e.memArgs(s, args[3], e.indexSorts(t, index), varargTypes(cc.Args[3]))
		rt := cc.Signature().Results()
		n := e.symbolic(s, rt.At(0).Type(), "ndeleted")
		er := e.symbolic(s, rt.At(1).Type(), "delerr").(*Agg)
		etag := er.F[0].(Scalar).T
		ks := t.keySorts()
		oldHas := e.cur(s, memFam("txn", t, "has"), ks, "Bool")
		bs, ns := qvars(t, "x")
		row := e.memRow(s, "txn", t, ns)
		e.fresh++
		nw := fmt.Sprintf("|%s!%d|", memFam("txn", t, "has"), e.fresh)
		e.decl(fmt.Sprintf("(define-fun %s (%s) Bool (and %s (or (not (= %s 0)) (not %s))))", nw, bs, app(oldHas, ns...), etag, e.memMatch(s, t, index, row, ias)))
		e.macros[nw] = true
		s.ver[memFam("txn", t, "has")] = nw
		setRes(s, Tuple{E: []Val{n, er}})
		rest(s)
	}
	extModelDoc[txnP+"Commit"] = "the transaction view becomes the committed store"
	extModels[txnP+"Commit"] = func(e *Exec, s *State, args []Val, cc *ssa.CallCommon, setRes func(*State, Val), rest func(*State)) {
		e.memResolveAll()
		for _, name := range sortedKeys(memTables) {
			t := memTables[name]
			ks := t.keySorts()
			s.ver[memFam("db", t, "has")] = e.cur(s, memFam("txn", t, "has"), ks, "Bool")
			s.ver[memFam("db", t, "row")] = e.cur(s, memFam("txn", t, "row"), ks, "Ref")
			e.famDecl(memFam("db", t, "has"), ks, "Bool")
			e.famDecl(memFam("db", t, "row"), ks, "Ref")
			e.written[memFam("db", t, "has")] = true
			e.written[memFam("db", t, "row")] = true
		}
		e.hwrite(s, "$g.committed", nil, "Bool", nil, "true")
		rest(s)
	}
	extModelDoc[txnP+"Abort"] = "no effect on the committed store (after Commit: a no-op)"
	extModels[txnP+"Abort"] = func(e *Exec, s *State, args []Val, cc *ssa.CallCommon, setRes func(*State, Val), rest func(*State)) { rest(s) }

	// ---- result iterators: a ghost sequence of distinct stored rows ----
	iterModel := func(kind string) ExtModel {
		return func(e *Exec, s *State, args []Val, cc *ssa.CallCommon, setRes func(*State, Val), rest func(*State)) {
			t := e.memTableOf(cc.Args[1])
			index := constStr(e, cc.Args[2])
			e.memWf(s, "txn", t)
			ias := e.memArgs(s, args[3], e.indexSorts(t, index), varargTypes(cc.Args[3]))
			rt := cc.Signature().Results()
			itv := e.symbolic(s, rt.At(0).Type(), "iter").(*Agg)
			er := e.symbolic(s, rt.At(1).Type(), "err").(*Agg)
			it := itv.F[1].(Scalar).T
			etag := er.F[0].(Scalar).T
			s.assume("(=> (= %s 0) (and (not (= %s 0)) (not (= %s null))))", etag, itv.F[0].(Scalar).T, it)
			// ghost: $it.n(it), $it.row(it, i), $it.cur(it)
			n := fmt.Sprintf("(%s %s)", e.cur(s, "$it.n", []string{"Ref"}, "Int"), it)
			rowAt := func(i string) string {
				return fmt.Sprintf("(%s %s %s)", e.cur(s, "$it.row", []string{"Ref", "Int"}, "Ref"), it, i)
			}
			e.hwrite(s, "$it.cur", []string{"Ref"}, "Int", []string{it}, "0")
			e.itTable[it] = itInfo{t: t, index: index, kind: kind, args: ias}
			s.assume("(>= %s 0)", n)
			// the sequence has a leading segment [0, m) of the rows that satisfy the index condition (same leading
			// string fields, bound on the trailing integer field) and, for LowerBound/ReverseLowerBound, a trailing
			// segment [m, n) of rows of OTHER leading keys (go-memdb keeps iterating past the prefix)
			m := fmt.Sprintf("(%s %s)", e.cur(s, "$it.m", []string{"Ref"}, "Int"), it)
			s.assume("(and (<= 0 %s) (<= %s %s))", m, m, n)
			if kind == "get" {
				s.assume("(= %s %s)", m, n)
			}
			ri := rowAt("i")
			cond := e.memIterCond(s, t, index, kind, ri, ias)
			key := e.rowKey(s, t, ri)
			tid := typeID(t.rowT)
			e.w.typeNames[tid] = t.rowT
			rowFn := e.cur(s, "$it.row", []string{"Ref", "Int"}, "Ref")
			s.assume("(forall ((i Int)) %s)", e.withPat(fmt.Sprintf("(=> (and (<= 0 i) (< i %s)) (and (not (= %s null)) %s (= %s %s) (=> (< i %s) %s) (=> (>= i %s) (not %s))))", n, ri, e.memHas(s, "txn", t, key), e.memRow(s, "txn", t, key), ri, m, cond, m, e.memPrefixCond(s, t, index, ri, ias)), rowFn, []string{it, "i"}))
			// distinct positions hold distinct rows
			s.assume("(forall ((i Int) (j Int)) (=> (and (<= 0 i) (< i j) (< j %s)) (not (= %s %s))))", n, rowAt("i"), rowAt("j"))
			// completeness: every stored row satisfying the condition occurs in the leading segment
			bs, ns := qvars(t, "y")
			srow := e.memRow(s, "txn", t, ns)
			s.assume("(forall (%s) (=> (and %s %s) (exists ((i Int)) (and (<= 0 i) (< i %s) (= %s %s)))))", bs, e.memHas(s, "txn", t, ns), e.memIterCond(s, t, index, kind, srow, ias), m, rowAt("i"), srow)
			// order inside the leading segment: ascending (Get/LowerBound) or descending (ReverseLowerBound) in the trailing integer field
			if ord := e.memOrderField(t, index); ord != "" && len(ias) >= len(t.Indexes[index])-1 {
				cmp := "<"
				if kind == "rlb" {
					cmp = ">"
				}
				s.assume("(forall ((i Int) (j Int)) (=> (and (<= 0 i) (< i j) (< j %s)) (%s %s %s)))", m, cmp, e.rowField(s, t, rowAt("i"), ord), e.rowField(s, t, rowAt("j"), ord))
			}
			setRes(s, Tuple{E: []Val{itv, er}})
			rest(s)
		}
	}
	extModelDoc[txnP+"Get"] = "iterator over exactly the stored rows whose index fields equal the arguments (prefix match), each once; ascending in a trailing integer index field"
	extModels[txnP+"Get"] = iterModel("get")
	extModelDoc[txnP+"LowerBound"] = "iterator over exactly the stored rows whose leading string index fields equal the arguments and whose trailing integer field is >= the bound, ascending"
	extModels[txnP+"LowerBound"] = iterModel("lb")
	extModelDoc[txnP+"ReverseLowerBound"] = "iterator over exactly the stored rows whose leading string index fields equal the arguments and whose trailing integer field is <= the bound, descending"
	extModels[txnP+"ReverseLowerBound"] = iterModel("rlb")
	extModelDoc["invoke "+memdbPkg+"ResultIterator.Next"] = "returns the next row of the ghost sequence, or nil when exhausted"
	extModels["invoke ("+memdbPkg+"ResultIterator).Next"] = func(e *Exec, s *State, args []Val, cc *ssa.CallCommon, setRes func(*State, Val), rest func(*State)) {
		itv := args[0].(*Agg)
		it := itv.F[1].(Scalar).T
		cur := fmt.Sprintf("(%s %s)", e.cur(s, "$it.cur", []string{"Ref"}, "Int"), it)
		n := fmt.Sprintf("(%s %s)", e.cur(s, "$it.n", []string{"Ref"}, "Int"), it)
		row := fmt.Sprintf("(%s %s %s)", e.cur(s, "$it.row", []string{"Ref", "Int"}, "Ref"), it, cur)
		info, ok := e.itTable[it]
		tag := "0"
		if ok {
			tag = fmt.Sprint(typeID(info.t.rowT))
		} else {
			tg := e.symbolic(s, types.Typ[types.Int], "rowtag").(Scalar).T
			s.assume("(> %s 0)", tg)
			tag = tg
		}
		res := &Agg{F: []Val{S("(ite (< %s %s) %s 0)", cur, n, tag), S("(ite (< %s %s) %s null)", cur, n, row)}}
		s.assume("(>= %s 0)", cur)
		e.hwrite(s, "$it.cur", []string{"Ref"}, "Int", []string{it}, fmt.Sprintf("(+ %s 1)", cur))
		setRes(s, res)
		rest(s)
	}
	extModelMods["invoke ("+memdbPkg+"ResultIterator).Next"] = map[string]famSig{"$it.cur": {[]string{"Ref"}, "Int"}}
	for _, n := range []string{"Insert", "Delete", "DeleteAll"} {
		extModelModsFn[txnP+n] = func(e *Exec, cc *ssa.CallCommon) map[string]famSig {
			t := e.memTableOf(cc.Args[1])
			return map[string]famSig{memFam("txn", t, "has"): {t.keySorts(), "Bool"}, memFam("txn", t, "row"): {t.keySorts(), "Ref"}}
		}
	}
	extModelModsFn[txnP+"Commit"] = func(e *Exec, cc *ssa.CallCommon) map[string]famSig {
		e.memResolveAll()
		out := map[string]famSig{"$g.committed": {nil, "Bool"}}
		for _, t := range memTables {
			out[memFam("db", t, "has")] = famSig{t.keySorts(), "Bool"}
			out[memFam("db", t, "row")] = famSig{t.keySorts(), "Ref"}
		}
		return out
	}

	// spec vocabulary:  dbhas(T, k...)  dbrow(T, k...)  txnhas / txnrow  itlen(it) itrow(it,i) itcur(it)  committed()
	mk := func(space, what string) func(env *SpecEnv, n SCall) TV {
		return func(env *SpecEnv, n SCall) TV {
			e := env.e
			id, ok := n.Args[0].(SId)
			if !ok {
				env.fail("%s: first argument must be a table name", n.Fun)
			}
			t := memTables[id.Name]
			if t == nil {
				env.fail("%s: unknown table %s", n.Fun, id.Name)
			}
			e.memResolveAll()
			if len(n.Args)-1 != len(t.Key) {
				env.fail("%s(%s): %d key arguments, want %d (%v)", n.Fun, id.Name, len(n.Args)-1, len(t.Key), t.Key)
			}
			var key []string
			for _, a := range n.Args[1:] {
				key = append(key, bterm(env.eval(a)))
			}
			if what == "has" {
				return TV{S("%s", e.memHas(env.cur, space, t, key)), boolT}
			}
			term := e.memRow(env.cur, space, t, key)
			if e.specHook != nil {
				e.specHook(term, e.cur(env.cur, memFam(space, t, "row"), t.keySorts(), "Ref"), "")
			}
			return TV{S("%s", term), t.rowT}
		}
	}
	specBuiltins["dbhas"] = mk("db", "has")
	specBuiltins["dbrow"] = mk("db", "row")
	specBuiltins["txnhas"] = mk("txn", "has")
	specBuiltins["txnrow"] = mk("txn", "row")
	specBuiltins["committed"] = func(env *SpecEnv, n SCall) TV {
		return TV{S("%s", env.e.cur(env.cur, "$g.committed", nil, "Bool")), boolT}
	}
	specBuiltins["itlen"] = func(env *SpecEnv, n SCall) TV {
		it := env.refOf(env.eval(n.Args[0]))
		return TV{S("(%s %s)", env.e.cur(env.cur, "$it.n", []string{"Ref"}, "Int"), it), intT}
	}
	specBuiltins["itseg"] = func(env *SpecEnv, n SCall) TV {
		it := env.refOf(env.eval(n.Args[0]))
		return TV{S("(%s %s)", env.e.cur(env.cur, "$it.m", []string{"Ref"}, "Int"), it), intT}
	}
	specBuiltins["itcur"] = func(env *SpecEnv, n SCall) TV {
		it := env.refOf(env.eval(n.Args[0]))
		return TV{S("(%s %s)", env.e.cur(env.cur, "$it.cur", []string{"Ref"}, "Int"), it), intT}
	}
	specBuiltins["itrow"] = func(env *SpecEnv, n SCall) TV {
		it := env.refOf(env.eval(n.Args[0]))
		var rt types.Type = types.NewPointer(types.NewStruct(nil, nil))
		if len(n.Args) == 3 {
			if t := env.e.w.resolveType(specTypeString(n.Args[2]), env.pkg); t != nil {
				rt = t
			} else {
				env.fail("itrow: unknown type %s", specTypeString(n.Args[2]))
			}
		}
		return TV{S("(%s %s %s)", env.e.cur(env.cur, "$it.row", []string{"Ref", "Int"}, "Ref"), it, bterm(env.eval(n.Args[1]))), rt}
	}
}

type itInfo struct {
	t     *memTable
	index string
	kind  string
	args  []string
}

// the trailing integer field of an index, if any (iteration order within equal string prefix)
func (e *Exec) memOrderField(t *memTable, index string) string {
	fs := t.Indexes[index]
	if len(fs) == 0 {
		return ""
	}
	last := fs[len(fs)-1]
	if t.fieldSort(last) == "Int" {
		return last
	}
	return ""
}

// the leading string index fields equal the arguments
func (e *Exec) memPrefixCond(s *State, t *memTable, index, row string, args []string) string {
	fields := t.Indexes[index]
	var cs []string
	for i, a := range args {
		if i >= len(fields) || a == "" {
			break
		}
		if t.fieldSort(fields[i]) == "Str" {
			cs = append(cs, fmt.Sprintf("(= %s %s)", e.rowField(s, t, row, fields[i]), a))
		}
	}
	if len(cs) == 0 {
		return "true"
	}
	if len(cs) == 1 {
		return cs[0]
	}
	return "(and " + strings.Join(cs, " ") + ")"
}

// the membership condition of an iterator: string (and earlier) index fields equal the arguments; for bounds the
// trailing integer field is compared with the last argument
func (e *Exec) memIterCond(s *State, t *memTable, index, kind, row string, args []string) string {
	fields := t.Indexes[index]
	var cs []string
	for i, a := range args {
		if i >= len(fields) || a == "" {
			break
		}
		so := t.fieldSort(fields[i])
		f := e.rowField(s, t, row, fields[i])
		if i == len(args)-1 && so == "Int" && kind != "get" {
			if kind == "lb" {
				cs = append(cs, fmt.Sprintf("(>= %s %s)", f, a))
			} else {
				cs = append(cs, fmt.Sprintf("(<= %s %s)", f, a))
			}
			continue
		}
		if so == "Str" || so == "Int" || so == "Bool" || so == "Key" {
			cs = append(cs, fmt.Sprintf("(= %s %s)", f, a))
		} else {
			e.abort("memdb: index field %s of sort %s is not modelled", fields[i], so)
		}
	}
	if len(cs) == 0 {
		return "true"
	}
	if len(cs) == 1 {
		return cs[0]
	}
	return "(and " + strings.Join(cs, " ") + ")"
}
