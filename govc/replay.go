// replay.go: concrete replay of counterexamples against the real code (drivers under /verif/replay-drivers).
package main

func runReplayDriver(w *World, verif, prop string, ks *keyStatus, r *OblResult, model string) map[string]interface{} {
	return nil
}
