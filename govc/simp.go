package main

import (
	"strings"
)

// A small syntactic simplifier for goals: constant folding over the boolean connectives and over (in)equalities between
// integer literals or textually identical terms. Used only to recognise goals that are valid without any hypothesis
// (result "true"); anything else goes to the solvers unchanged.

type sx struct {
	atom string
	kids []*sx
}

func parseSx(s string) *sx {
	pos := 0
	var parse func() *sx
	parse = func() *sx {
		for pos < len(s) && (s[pos] == ' ' || s[pos] == '\n' || s[pos] == '\t') {
			pos++
		}
		if pos >= len(s) {
			return nil
		}
		if s[pos] == '(' {
			pos++
			n := &sx{}
			for {
				for pos < len(s) && (s[pos] == ' ' || s[pos] == '\n' || s[pos] == '\t') {
					pos++
				}
				if pos >= len(s) {
					return nil
				}
				if s[pos] == ')' {
					pos++
					return n
				}
				k := parse()
				if k == nil {
					return nil
				}
				n.kids = append(n.kids, k)
			}
		}
		st := pos
		if s[pos] == '|' {
			pos++
			for pos < len(s) && s[pos] != '|' {
				pos++
			}
			pos++
		} else if s[pos] == '"' {
			pos++
			for pos < len(s) {
				if s[pos] == '"' {
					if pos+1 < len(s) && s[pos+1] == '"' {
						pos += 2
						continue
					}
					break
				}
				pos++
			}
			pos++
		} else {
			for pos < len(s) && s[pos] != ' ' && s[pos] != '(' && s[pos] != ')' && s[pos] != '\n' && s[pos] != '\t' {
				pos++
			}
		}
		if pos > len(s) {
			return nil
		}
		a := s[st:pos]
		if a == "true" {
			return sxTrue
		}
		if a == "false" {
			return sxFalse
		}
		return &sx{atom: a}
	}
	n := parse()
	for pos < len(s) && (s[pos] == ' ' || s[pos] == '\n') {
		pos++
	}
	if pos != len(s) {
		return nil
	}
	return n
}

func (n *sx) String() string {
	if n.kids == nil && n.atom != "" {
		return n.atom
	}
	var sb strings.Builder
	sb.WriteByte('(')
	for i, k := range n.kids {
		if i > 0 {
			sb.WriteByte(' ')
		}
		sb.WriteString(k.String())
	}
	sb.WriteByte(')')
	return sb.String()
}

func isIntLit(n *sx) (string, bool) {
	if n.kids == nil {
		if n.atom == "" {
			return "", false
		}
		for _, c := range n.atom {
			if c < '0' || c > '9' {
				return "", false
			}
		}
		return n.atom, true
	}
	if len(n.kids) == 2 && n.kids[0].atom == "-" && n.kids[0].kids == nil {
		if v, ok := isIntLit(n.kids[1]); ok {
			if v == "0" {
				return "0", true
			}
			return "-" + v, true
		}
	}
	return "", false
}

func isStrLit(n *sx) bool { return n.kids == nil && strings.HasPrefix(n.atom, "\"") }

var sxTrue, sxFalse = &sx{atom: "true"}, &sx{atom: "false"}

func simpSx(n *sx) *sx {
	if n.kids == nil {
		return n
	}
	if len(n.kids) == 0 {
		return n
	}
	head := n.kids[0]
	if head.kids != nil {
		return n
	}
	switch head.atom {
	case "forall", "exists", "let", "!":
		// only simplify the body of quantifiers; a quantified constant is that constant
		if (head.atom == "forall" || head.atom == "exists") && len(n.kids) == 3 {
			b := simpSx(n.kids[2])
			if b == sxTrue || b == sxFalse {
				return b
			}
			return &sx{kids: []*sx{head, n.kids[1], b}}
		}
		if head.atom == "!" && len(n.kids) >= 2 {
			b := simpSx(n.kids[1])
			if b == sxTrue || b == sxFalse {
				return b
			}
			return &sx{kids: append([]*sx{head, b}, n.kids[2:]...)}
		}
		return n
	}
	args := make([]*sx, len(n.kids)-1)
	for i, k := range n.kids[1:] {
		args[i] = simpSx(k)
	}
	mk := func() *sx { return &sx{kids: append([]*sx{head}, args...)} }
	switch head.atom {
	case "not":
		if len(args) == 1 {
			if args[0] == sxTrue {
				return sxFalse
			}
			if args[0] == sxFalse {
				return sxTrue
			}
		}
	case "and":
		var keep []*sx
		for _, a := range args {
			if a == sxFalse {
				return sxFalse
			}
			if a != sxTrue {
				keep = append(keep, a)
			}
		}
		if len(keep) == 0 {
			return sxTrue
		}
		if len(keep) == 1 {
			return keep[0]
		}
		return &sx{kids: append([]*sx{head}, keep...)}
	case "or":
		var keep []*sx
		for _, a := range args {
			if a == sxTrue {
				return sxTrue
			}
			if a != sxFalse {
				keep = append(keep, a)
			}
		}
		if len(keep) == 0 {
			return sxFalse
		}
		if len(keep) == 1 {
			return keep[0]
		}
		return &sx{kids: append([]*sx{head}, keep...)}
	case "=>":
		if len(args) == 2 {
			if args[0] == sxFalse || args[1] == sxTrue {
				return sxTrue
			}
			if args[0] == sxTrue {
				return args[1]
			}
		}
	case "ite":
		if len(args) == 3 {
			if args[0] == sxTrue {
				return args[1]
			}
			if args[0] == sxFalse {
				return args[2]
			}
		}
	case "=", "distinct", "<", "<=", ">", ">=":
		if len(args) == 2 {
			a, aok := isIntLit(args[0])
			b, bok := isIntLit(args[1])
			if aok && bok {
				// compare as (signed) decimal strings
				less := func(x, y string) bool {
					nx, ny := strings.HasPrefix(x, "-"), strings.HasPrefix(y, "-")
					if nx != ny {
						return nx
					}
					if nx {
						x, y = y[1:], x[1:]
					}
					x, y = strings.TrimLeft(x, "0"), strings.TrimLeft(y, "0")
					if len(x) != len(y) {
						return len(x) < len(y)
					}
					return x < y
				}
				eq := !less(a, b) && !less(b, a)
				var r bool
				switch head.atom {
				case "=":
					r = eq
				case "distinct":
					r = !eq
				case "<":
					r = less(a, b)
				case "<=":
					r = less(a, b) || eq
				case ">":
					r = less(b, a)
				case ">=":
					r = less(b, a) || eq
				}
				if r {
					return sxTrue
				}
				return sxFalse
			}
			if head.atom == "=" || head.atom == "<=" || head.atom == ">=" {
				if args[0].String() == args[1].String() {
					return sxTrue
				}
			}
			if head.atom == "=" && (args[0] == sxTrue || args[0] == sxFalse) && (args[1] == sxTrue || args[1] == sxFalse) {
				if args[0] == args[1] {
					return sxTrue
				}
				return sxFalse
			}
			if (head.atom == "=" || head.atom == "distinct") && isStrLit(args[0]) && isStrLit(args[1]) {
				if (args[0].atom == args[1].atom) == (head.atom == "=") {
					return sxTrue
				}
				return sxFalse
			}
		}
	}
	return mk()
}

// triviallyValid: the goal is valid by constant folding alone
func triviallyValid(goal string) bool {
	if goal == "true" {
		return true
	}
	if !strings.Contains(goal, "true") && !strings.Contains(goal, "false") && !strings.Contains(goal, "(= ") && !strings.Contains(goal, "(<") && !strings.Contains(goal, "(>") {
		return false
	}
	n := parseSx(goal)
	if n == nil {
		return false
	}
	r := simpSx(n)
	return r == sxTrue || (r.kids == nil && r.atom == "true")
}
