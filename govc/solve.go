// solve.go: SMT-LIB emission (per-obligation background slicing) and the solver portfolio.
package main

import (
	"regexp"
	"context"
	"crypto/sha256"
	"encoding/hex"
	"fmt"
	"os"
	"os/exec"
	"path/filepath"
	"runtime"
	"sort"
	"strings"
	"sync"
	"sync/atomic"
	"time"
)

func (e *Exec) declOwned(owner, d string) {
	if !e.declSet[d] {
		e.declSet[d] = true
		e.decls = append(e.decls, d)
		if e.declOwner == nil {
			e.declOwner = map[string]string{}
		}
		e.declOwner[d] = owner
	}
}

func symbolsIn(t string) []string {
	var out []string
	for i := 0; i < len(t); i++ {
		if t[i] == '|' {
			j := strings.IndexByte(t[i+1:], '|')
			if j < 0 {
				break
			}
			out = append(out, t[i:i+j+2])
			i += j + 1
		}
	}
	return out
}

type sliceIndex struct {
	decls  []string
	syms   [][]string
	defOf  map[string][]int
	plain  []int // declarations without any |symbol| (sorts, null)
	axioms []axiomTerm
	axSyms [][]string
}

func buildSliceIndex(decls []string, owner map[string]string, axioms []axiomTerm) *sliceIndex {
	ix := &sliceIndex{decls: decls, defOf: map[string][]int{}, axioms: axioms}
	for i, d := range decls {
		syms := symbolsIn(d)
		ix.syms = append(ix.syms, syms)
		if o, ok := owner[d]; ok {
			ix.defOf[o] = append(ix.defOf[o], i)
			continue
		}
		if len(syms) == 0 {
			ix.plain = append(ix.plain, i)
			continue
		}
		ix.defOf[syms[0]] = append(ix.defOf[syms[0]], i)
	}
	for _, a := range axioms {
		ix.axSyms = append(ix.axSyms, symbolsIn(a.term))
	}
	return ix
}

// smtText: declarations transitively referenced by the obligation, its assumptions, and the negated goal
var reExists2 = regexp.MustCompile(`\(exists \(\([^()]*\) \(`)

var reRangeFact = regexp.MustCompile(`^\(and \(<= (\(- \d+\)|0) .*\) \(<= .* \d+\)\)$`)

func isRangeFact(p string) bool {
	return reRangeFact.MatchString(p) && !strings.Contains(p, "forall") && !strings.Contains(p, "exists")
}

// smtTextLight: additionally drops hypotheses with nested existentials (expensive for the solvers, rarely needed);
// dropping hypotheses is always sound
func (ix *sliceIndex) smtTextLight(o *Oblig, level int) string {
	var pre []string
	for _, p := range o.Pre {
		if isRangeFact(p) && !strings.HasPrefix(o.Kind, "safety/overflow") {
			continue
		}
		if level >= 2 && strings.Contains(p, "(exists ") {
			continue
		}
		if level == 1 && (strings.Count(p, "(exists ") >= 2 || reExists2.MatchString(p)) {
			continue
		}
		pre = append(pre, p)
	}
	if len(pre) == len(o.Pre) {
		return ""
	}
	o2 := *o
	o2.Pre = pre
	return ix.smtText(&o2, false)
}

func (ix *sliceIndex) smtText(o *Oblig, pruned bool) string {
	if pruned && !strings.HasPrefix(o.Kind, "safety/overflow") {
		var pre []string
		for _, p := range o.Pre {
			if !isRangeFact(p) {
				pre = append(pre, p)
			}
		}
		if len(pre) != len(o.Pre) {
			o2 := *o
			o2.Pre = pre
			return ix.smtText(&o2, false)
		}
	}
	need := map[int]bool{}
	seen := map[string]bool{}
	var work []string
	for _, r := range o.Pre {
		work = append(work, symbolsIn(r)...)
	}
	work = append(work, symbolsIn(o.Goal)...)
	axIn := map[int]bool{}
	for {
		for len(work) > 0 {
			sym := work[len(work)-1]
			work = work[:len(work)-1]
			if seen[sym] {
				continue
			}
			seen[sym] = true
			for _, i := range ix.defOf[sym] {
				if !need[i] {
					need[i] = true
					work = append(work, ix.syms[i]...)
				}
			}
		}
		progress := false
		for i := range ix.axioms {
			if axIn[i] {
				continue
			}
			for _, sy := range ix.axSyms[i] {
				if (strings.HasPrefix(sy, "|spec.") || strings.HasPrefix(sy, "|glob_") || strings.HasPrefix(sy, "|$idxkey.") || strings.HasPrefix(sy, "|ext.")) && seen[sy] {
					axIn[i] = true
					work = append(work, ix.axSyms[i]...)
					progress = true
					break
				}
			}
		}
		if !progress {
			break
		}
	}
	var sb strings.Builder
	sb.WriteString("(set-logic ALL)\n")
	for _, i := range ix.plain {
		sb.WriteString(ix.decls[i] + "\n")
	}
	// sort declarations first
	var idx []int
	for i := range need {
		idx = append(idx, i)
	}
	sort.Ints(idx)
	for _, i := range idx {
		if strings.HasPrefix(ix.decls[i], "(declare-sort") {
			sb.WriteString(ix.decls[i] + "\n")
		}
	}
	for _, i := range idx {
		if !strings.HasPrefix(ix.decls[i], "(declare-sort") {
			sb.WriteString(ix.decls[i] + "\n")
		}
	}
	// distinct string literals / sentinel errors
	var lits, errs []string
	for sy := range seen {
		if strings.HasPrefix(sy, "|str#") {
			lits = append(lits, sy)
		}
		if strings.HasPrefix(sy, "|glob_") && strings.HasSuffix(sy, ".$ref|") {
			errs = append(errs, sy)
		}
	}
	sort.Strings(lits)
	sort.Strings(errs)
	if seen["|zero_Str|"] && len(lits) > 0 {
		lits = append(lits, "|zero_Str|")
	}
	if len(lits) > 1 {
		sb.WriteString("(assert (distinct " + strings.Join(lits, " ") + "))\n")
	}
	if len(errs) > 1 {
		sb.WriteString("(assert (distinct " + strings.Join(errs, " ") + "))\n")
	}
	for i := range ix.axioms {
		if axIn[i] {
			sb.WriteString("(assert " + ix.axioms[i].term + ")\n")
		}
	}
	for _, p := range o.Pre {
		sb.WriteString("(assert " + p + ")\n")
	}
	// universally quantified goal: skolemise it here and keep applications of the named spec predicates to the
	// skolem constants alive as ground terms ("term seeding"), so that E-matching can instantiate the definitional
	// axioms and the hypotheses that mention other instances of the same predicate
	if binders, body, ok := splitForall(o.Goal); ok {
		var consts [][2]string
		for i, b := range binders {
			c := fmt.Sprintf("sk!%d", i)
			sb.WriteString(fmt.Sprintf("(declare-const %s %s)\n", c, b[1]))
			body = strings.ReplaceAll(body, b[0], c)
			consts = append(consts, [2]string{c, b[1]})
		}
		sb.WriteString("(declare-fun seed!B (Bool) Bool)\n")
		nseed := 0
		for _, i := range idx {
			d := ix.decls[i]
			if !strings.HasPrefix(d, "(declare-fun |spec.") {
				continue
			}
			name, sorts, res := parseDeclFun(d)
			if res != "Bool" || len(sorts) == 0 || len(sorts) > 2 {
				continue
			}
			for _, combo := range seedCombos(sorts, consts) {
				if nseed < 60 {
					sb.WriteString(fmt.Sprintf("(assert (seed!B (%s %s)))\n", name, strings.Join(combo, " ")))
					nseed++
				}
			}
		}
		sb.WriteString("(assert (not " + body + "))\n(check-sat)\n")
		return sb.String()
	}
	sb.WriteString("(assert (not " + o.Goal + "))\n(check-sat)\n")
	return sb.String()
}

type SolveResult struct {
	Status  string // unsat | sat | unknown | timeout | error
	Solver  string
	Millis  int64
	Output  string
	Cached  bool
}

type Solver struct {
	workDir  string
	timeout  time.Duration
	cacheDir string
	noCache  bool
	retryFactor int             // > 1: a goal that timed out is tried once more with this many times the limit
	noRetry     map[string]bool // obligation keys exempt from the second chance (recorded known findings)
}

var fileSeq int64

var procSem = make(chan struct{}, runtime.NumCPU())

func runOne(ctx context.Context, bin string, args []string) (string, string) {
	select {
	case procSem <- struct{}{}:
	case <-ctx.Done():
		return "timeout", ""
	}
	defer func() { <-procSem }()
	if ctx.Err() != nil {
		return "timeout", ""
	}
	cmd := exec.CommandContext(ctx, bin, args...)
	out, _ := cmd.CombinedOutput()
	text := strings.TrimSpace(string(out))
	for _, ln := range strings.Split(text, "\n") {
		switch strings.TrimSpace(ln) {
		case "unsat", "sat", "unknown":
			return strings.TrimSpace(ln), text
		}
	}
	if ctx.Err() != nil || strings.Contains(text, "timeout") || strings.Contains(text, "interrupted") {
		return "timeout", text
	}
	return "error", text
}

// solveVariants: a discharge of the pruned query (fewer assumptions) is a discharge of the obligation
func (sv *Solver) solveVariants(pruned, full string, canary bool) SolveResult {
	return sv.solveVariants3("", pruned, full, canary)
}

func (sv *Solver) solveVariants3(light, pruned, full string, canary bool) SolveResult {
	return sv.solveVariants4(light, "", pruned, full, canary)
}

func (sv *Solver) solveVariants4(light2, light1, pruned, full string, canary bool) SolveResult {
	if !canary {
		for i, l := range []string{light2, light1} {
			if l == "" || l == pruned || (i == 1 && l == light2) {
				continue
			}
			r := sv.solveWith(l, false, 4)
			if r.Status == "unsat" {
				r.Solver += "(light)"
				return r
			}
		}
	}
	if canary || pruned == full {
		return sv.solve(full, canary)
	}
	saved := sv.timeout
	_ = saved
	r := sv.solveWith(pruned, false, 6)
	if r.Status == "unsat" {
		r.Solver += "(pruned)"
		return r
	}
	r2 := sv.solve(full, false)
	r2.Millis += r.Millis
	return r2
}

func (sv *Solver) solveWith(text string, canary bool, secs int) SolveResult {
	t := sv.timeout
	c := *sv
	c.timeout = time.Duration(secs) * time.Second
	if c.timeout > t {
		c.timeout = t
	}
	return c.solve(text, canary)
}

type flight struct {
	once sync.Once
	res  SolveResult
}

var inflight sync.Map // query hash -> *flight : identical queries are solved once per run

var reFreshSym = regexp.MustCompile(`[^\s()|!]+![0-9]+`)

// canonSMT renumbers the fresh-name counters (name!N) in order of first appearance: queries that differ only in the
// counters handed out along different paths become textually equal and are solved once (a bijective renaming).
func canonSMT(text string) string {
	m := map[string]string{}
	next := map[string]int{}
	return reFreshSym.ReplaceAllStringFunc(text, func(tok string) string {
		if r, ok := m[tok]; ok {
			return r
		}
		i := strings.LastIndex(tok, "!")
		base := tok[:i]
		r := fmt.Sprintf("%s!%d", base, next[base])
		next[base]++
		m[tok] = r
		return r
	})
}

func (sv *Solver) solve(text string, canary bool) SolveResult {
	text = canonSMT(text)
	h := sha256.Sum256([]byte(text))
	key := hex.EncodeToString(h[:])
	if canary {
		key = "c" + key[1:]
	}
	fk := fmt.Sprintf("%s/%d", key, int(sv.timeout.Seconds()))
	v, _ := inflight.LoadOrStore(fk, &flight{})
	fl := v.(*flight)
	first := false
	fl.once.Do(func() {
		first = true
		fl.res = sv.solveUncached(text, key, canary)
	})
	r := fl.res
	if !first {
		r.Millis = 0
		r.Cached = true
	}
	return r
}

func (sv *Solver) solveUncached(text, key string, canary bool) SolveResult {
	cfile := filepath.Join(sv.cacheDir, key[:2], key)
	if !sv.noCache {
		if b, err := os.ReadFile(cfile); err == nil {
			parts := strings.SplitN(strings.TrimSpace(string(b)), " ", 3)
			if len(parts) >= 3 {
				var ms int64
				fmt.Sscanf(parts[2], "%d", &ms)
				return SolveResult{Status: parts[0], Solver: parts[1], Millis: ms, Cached: true}
			}
		}
	}
	file := filepath.Join(sv.workDir, fmt.Sprintf("%s-%d.smt2", key[:16], atomic.AddInt64(&fileSeq, 1)))
	os.WriteFile(file, []byte(text), 0o644)
	defer os.Remove(file)
	t0 := time.Now()
	res := sv.race(file, canary)
	res.Millis = time.Since(t0).Milliseconds()
	// only answers that cost something are worth a file: the bulk of the goals is decided in a few milliseconds, and caching
	// every one of them grew the cache to millions of files
	if !sv.noCache && (res.Status == "unsat" || res.Status == "sat") && res.Millis >= 150 {
		os.MkdirAll(filepath.Dir(cfile), 0o755)
		os.WriteFile(cfile, []byte(fmt.Sprintf("%s %s %d\n", res.Status, res.Solver, res.Millis)), 0o644)
	}
	return res
}

func (sv *Solver) race(file string, canary bool) SolveResult {
	secs := int(sv.timeout.Seconds())
	if canary {
		ctx, cancel := context.WithTimeout(context.Background(), 3*time.Second)
		defer cancel()
		st, out := runOne(ctx, "z3-new", []string{"-T:2", file})
		return SolveResult{Status: st, Solver: "z3-new", Output: out}
	}
	// stage 1: z3-new, short
	first := 2
	if secs < first {
		first = secs
	}
	ctx1, cancel1 := context.WithTimeout(context.Background(), time.Duration(first+1)*time.Second)
	st, out := runOne(ctx1, "z3-new", []string{fmt.Sprintf("-T:%d", first), file})
	cancel1()
	if st == "unsat" || st == "sat" {
		return SolveResult{Status: st, Solver: "z3-new", Output: out}
	}
	// stage 2: all three in parallel with the full timeout; first definite answer wins
	type r struct {
		st, out, solver string
	}
	ctx, cancel := context.WithTimeout(context.Background(), time.Duration(secs+1)*time.Second)
	defer cancel()
	ch := make(chan r, 3)
	cmds := []struct {
		name string
		bin  string
		args []string
	}{
		{"z3-4.8.12", "z3", []string{fmt.Sprintf("-T:%d", secs), file}},
		{"cvc5", "cvc5", []string{fmt.Sprintf("--tlimit=%d", secs*1000), file}},
		{"z3-new", "z3-new", []string{fmt.Sprintf("-T:%d", secs), file}},
	}
	for _, c := range cmds {
		c := c
		go func() {
			st, out := runOne(ctx, c.bin, c.args)
			ch <- r{st, out, c.name}
		}()
	}
	best := SolveResult{Status: st, Solver: "z3-new", Output: out}
	defer func() {
		_ = best
	}()
	for i := 0; i < len(cmds); i++ {
		x := <-ch
		if x.st == "unsat" {
			cancel()
			return SolveResult{Status: "unsat", Solver: x.solver, Output: x.out}
		}
		if x.st == "sat" {
			best = SolveResult{Status: "sat", Solver: x.solver, Output: x.out}
		} else if best.Status != "sat" && (best.Status == "error" || x.st == "unknown") {
			best = SolveResult{Status: x.st, Solver: x.solver, Output: x.out}
		}
	}
	return best
}

// get a model for a failed obligation (best effort): z3-new with (get-model)
func (sv *Solver) model(text string, secs int) string {
	file := filepath.Join(sv.workDir, fmt.Sprintf("model-%d.smt2", time.Now().UnixNano()))
	os.WriteFile(file, []byte(strings.Replace(text, "(check-sat)", "(check-sat)\n(get-model)", 1)), 0o644)
	defer os.Remove(file)
	ctx, cancel := context.WithTimeout(context.Background(), time.Duration(secs+1)*time.Second)
	defer cancel()
	_, out := runOne(ctx, "z3-new", []string{fmt.Sprintf("-T:%d", secs), "model.completion=true", file})
	return out
}

// splitForall: "(forall ((v S) ...) body)" -> binders, body
func splitForall(g string) (binders [][2]string, body string, ok bool) {
	const pre = "(forall ("
	if !strings.HasPrefix(g, pre) || !strings.HasSuffix(g, ")") {
		return nil, "", false
	}
	i := len(pre)
	for i < len(g) && g[i] == '(' {
		j := strings.IndexByte(g[i:], ')')
		if j < 0 {
			return nil, "", false
		}
		f := strings.Fields(g[i+1 : i+j])
		if len(f) != 2 {
			return nil, "", false
		}
		binders = append(binders, [2]string{f[0], f[1]})
		i += j + 1
		for i < len(g) && g[i] == ' ' {
			i++
		}
	}
	if i >= len(g) || g[i] != ')' {
		return nil, "", false
	}
	body = strings.TrimSpace(g[i+1 : len(g)-1])
	if strings.HasPrefix(body, "(! ") {
		// drop a pattern annotation
		if k := strings.LastIndex(body, " :pattern"); k > 0 {
			body = strings.TrimSpace(body[3:k])
		}
	}
	return binders, body, len(binders) > 0
}

func parseDeclFun(d string) (name string, sorts []string, res string) {
	// (declare-fun |name| (S1 S2) R)
	i := strings.Index(d, "|")
	j := strings.Index(d[i+1:], "|")
	name = d[i : i+j+2]
	rest := d[i+j+2:]
	a, b := strings.Index(rest, "("), strings.Index(rest, ")")
	if a < 0 || b < a {
		return
	}
	sorts = strings.Fields(rest[a+1 : b])
	res = strings.TrimSpace(strings.TrimSuffix(strings.TrimSpace(rest[b+1:]), ")"))
	return
}

func seedCombos(sorts []string, consts [][2]string) [][]string {
	var out [][]string
	var rec func(i int, cur []string)
	rec = func(i int, cur []string) {
		if i == len(sorts) {
			out = append(out, append([]string{}, cur...))
			return
		}
		for _, c := range consts {
			if c[1] == sorts[i] {
				rec(i+1, append(cur, c[0]))
			}
		}
	}
	rec(0, nil)
	return out
}
