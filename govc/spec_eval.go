// spec_eval.go: evaluation of contract expressions into SMT terms over symbolic states.
package main

import (
	"os"
	"runtime/debug"
	"fmt"
	"go/constant"
	"go/types"
	"regexp"
	"sort"
	"strings"

	"golang.org/x/tools/go/ssa"
)

type TV struct {
	V Val
	T types.Type
}

type loopCtx struct {
	seen   string    // current seen predicate of a map-range loop ("" if none)
	iter   string    // number of completed iterations (range loops); "" if unknown
	keySort string
}

type SpecEnv struct {
	foreign bool // evaluating a clause of an applied (callee / callback / lemma callee) contract
	e     *Exec
	cur   *State
	old   *State
	head  *State // loop step clauses: the state at the start of the pass through the body (at_head)
	locals *State // where local variables are read (old() switches the heap only, as in Dafny)
	inOldCtx bool // inside old(): a parameter name denotes its value at function entry
	vars  map[string]TV
	params map[string]TV // consulted after locals (loop invariants see the current value of a reassigned parameter)
	pkg   *types.Package
	fn    *ssa.Function // for locals by name (loop invariants); nil otherwise
	calleeFn *ssa.Function // foreign clauses: the callee whose contract is being applied (result types for lastresult)
	loop  *loopCtx
	bound map[string]bool // SMT symbols of enclosing quantifier variables
	binders []string      // "(sym sort)" of enclosing quantifier variables
	facts *[]string
	depth int
}

func (env *SpecEnv) with(name string, tv TV) *SpecEnv {
	n := *env
	n.vars = map[string]TV{}
	for k, v := range env.vars {
		n.vars[k] = v
	}
	n.vars[name] = tv
	return &n
}

func (env *SpecEnv) fail(f string, a ...interface{}) {
	if os.Getenv("GOVC_TRACE") != "" {
		debug.PrintStack()
	}
	panic(execAbort{"spec: " + fmt.Sprintf(f, a...)})
}

var boolT = types.Typ[types.Bool]
var intT = types.Typ[types.Int]

func bterm(tv TV) string {
	sc, ok := tv.V.(Scalar)
	if !ok {
		panic(execAbort{fmt.Sprintf("spec: expected a scalar, got %T", tv.V)})
	}
	return sc.T
}

func (w *World) pkgByName(name string, from *types.Package) *types.Package {
	if from != nil {
		// the names the package's own source files use: import aliases, else the imported package's name
		if pp := w.byPath[from.Path()]; pp != nil {
			byPath := map[string]*types.Package{}
			for _, imp := range from.Imports() {
				byPath[imp.Path()] = imp
			}
			for _, f := range pp.Syntax {
				for _, is := range f.Imports {
					imp := byPath[strings.Trim(is.Path.Value, "\"")]
					if imp == nil {
						continue
					}
					local := imp.Name()
					if is.Name != nil {
						local = is.Name.Name
					}
					if local == name {
						return imp
					}
				}
			}
		}
		for _, imp := range from.Imports() {
			if imp.Name() == name && strings.HasPrefix(imp.Path(), "github.com/yorkie-team/yorkie") {
				return imp
			}
		}
		for _, imp := range from.Imports() {
			if imp.Name() == name {
				return imp
			}
		}
	}
	var cand *types.Package
	for _, p := range w.byName[name] {
		if strings.HasPrefix(p.Types.Path(), "github.com/yorkie-team/yorkie") {
			return p.Types
		}
		cand = p.Types
	}
	return cand
}

// resolve a type expression: T, *T, []T, pkg.T, map[K]V, basic types
func (w *World) resolveType(s string, pkg *types.Package) types.Type {
	s = strings.TrimSpace(s)
	switch {
	case strings.HasPrefix(s, "*"):
		if t := w.resolveType(s[1:], pkg); t != nil {
			return types.NewPointer(t)
		}
		return nil
	case strings.HasPrefix(s, "[]"):
		if t := w.resolveType(s[2:], pkg); t != nil {
			return types.NewSlice(t)
		}
		return nil
	case strings.HasPrefix(s, "map["):
		depth := 0
		for i := 3; i < len(s); i++ {
			if s[i] == '[' {
				depth++
			} else if s[i] == ']' {
				depth--
				if depth == 0 {
					k, v := w.resolveType(s[4:i], pkg), w.resolveType(s[i+1:], pkg)
					if k != nil && v != nil {
						return types.NewMap(k, v)
					}
					return nil
				}
			}
		}
		return nil
	}
	if s == "any" || s == "interface{}" {
		return types.NewInterfaceType(nil, nil)
	}
	if strings.HasSuffix(s, "]") {
		// an instantiation Name[Args]: the generic type itself (names of heap families ignore type arguments)
		if i := strings.Index(s, "["); i > 0 {
			gen := w.resolveType(s[:i], pkg)
			nt, ok := gen.(*types.Named)
			if !ok || nt.TypeParams().Len() == 0 {
				return gen
			}
			// instantiate when every argument resolves to a concrete type (Name[V] with V unknown stays generic)
			var targs []types.Type
			depth, start := 0, i+1
			inner := s[i+1 : len(s)-1]
			_ = inner
			for j := i + 1; j < len(s); j++ {
				switch s[j] {
				case '[', '(':
					depth++
				case ']', ')':
					if depth == 0 {
						if a := w.resolveType(s[start:j], pkg); a != nil {
							targs = append(targs, a)
						}
						j = len(s)
						continue
					}
					depth--
				case ',':
					if depth == 0 {
						if a := w.resolveType(s[start:j], pkg); a != nil {
							targs = append(targs, a)
						}
						start = j + 1
					}
				}
			}
			if len(targs) == nt.TypeParams().Len() {
				if inst, err := types.Instantiate(nil, nt, targs, false); err == nil {
					return inst
				}
			}
			return gen
		}
	}
	if o := types.Universe.Lookup(s); o != nil {
		if tn, ok := o.(*types.TypeName); ok {
			return tn.Type()
		}
	}
	if i := strings.LastIndex(s, "."); i >= 0 {
		p := w.pkgByName(s[:i], pkg)
		if p == nil {
			return nil
		}
		if tn, ok := p.Scope().Lookup(s[i+1:]).(*types.TypeName); ok {
			return tn.Type()
		}
		return nil
	}
	if pkg != nil {
		if tn, ok := pkg.Scope().Lookup(s).(*types.TypeName); ok {
			return tn.Type()
		}
	}
	return nil
}

func (env *SpecEnv) evalBool(x SExpr) string {
	tv := env.eval(x)
	return bterm(tv)
}

func (env *SpecEnv) lookupLocal(name string) (TV, bool) {
	if env.fn == nil || env.cur == nil {
		return TV{}, false
	}
	cells := env.cur.cells
	if env.locals != nil {
		cells = env.locals.cells
	}
	// name or name#k (k-th alloc with that name in source order)
	want := -1
	if i := strings.Index(name, "#"); i >= 0 {
		fmt.Sscanf(name[i+1:], "%d", &want)
		name = name[:i]
	}
	var cands []*ssa.Alloc
	for _, a := range sortedAllocs(cells) {
		if a.Comment == name && a.Parent() == env.fn {
			cands = append(cands, a)
		}
	}
	if len(cands) == 0 {
		// closure free variables / captured cells of enclosing functions
		for _, a := range sortedAllocs(cells) {
			if a.Comment == name {
				cands = append(cands, a)
			}
		}
	}
	if len(cands) == 0 {
		return TV{}, false
	}
	a := cands[len(cands)-1]
	if want >= 0 {
		// ordinal among all allocs of that name in the function
		var all []*ssa.Alloc
		for _, b := range env.fn.Blocks {
			for _, ins := range b.Instrs {
				if al, ok := ins.(*ssa.Alloc); ok && al.Comment == name {
					all = append(all, al)
				}
			}
		}
		sort.Slice(all, func(i, j int) bool { return all[i].Pos() < all[j].Pos() })
		if want >= len(all) {
			env.fail("no local %s#%d", name, want)
		}
		a = all[want]
		if _, ok := cells[a]; !ok {
			env.fail("local %s#%d is not live here", name, want)
		}
	}
	return TV{cells[a], a.Type().(*types.Pointer).Elem()}, true
}

var specConsts = map[string]string{
	"MaxInt64": "9223372036854775807", "MinInt64": "(- 9223372036854775808)", "MaxInt32": "2147483647", "MinInt32": "(- 2147483648)",
	"MaxUint32": "4294967295", "MaxUint64": "18446744073709551615", "MaxInt": "9223372036854775807",
}

func (env *SpecEnv) ident(name string) TV {
	if tv, ok := env.vars[name]; ok {
		return tv
	}
	if tv, ok := env.e.lets[name]; ok {
		return tv
	}
	if c, ok := specConsts[name]; ok {
		return TV{S("%s", c), intT}
	}
	if name == "iter" {
		if env.loop == nil || env.loop.iter == "" {
			env.fail("iter used outside a range loop")
		}
		return TV{S("%s", env.loop.iter), intT}
	}
	if env.inOldCtx {
		if tv, ok := env.params[name]; ok {
			return tv
		}
	}
	if tv, ok := env.lookupLocal(name); ok {
		return tv
	}
	if tv, ok := env.params[name]; ok {
		return tv
	}
	if g, ok := env.e.w.ghosts[name]; ok {
		return env.ghostVal(g)
	}
	if env.pkg != nil {
		if tv, ok := env.pkgObject(env.pkg, name); ok {
			return tv
		}
	}
	env.fail("unknown identifier %q", name)
	return TV{}
}

func (env *SpecEnv) pkgObject(pkg *types.Package, name string) (TV, bool) {
	switch o := pkg.Scope().Lookup(name).(type) {
	case *types.Const:
		switch o.Val().Kind() {
		case constant.Int:
			x := o.Val().ExactString()
			if strings.HasPrefix(x, "-") {
				return TV{S("(- %s)", x[1:]), o.Type()}, true
			}
			return TV{S("%s", x), o.Type()}, true
		case constant.String:
			return TV{S("%s", env.e.strLit(constant.StringVal(o.Val()))), o.Type()}, true
		case constant.Bool:
			return TV{S("%v", constant.BoolVal(o.Val())), o.Type()}, true
		}
	case *types.Var:
		ga := GlobalAddr{Name: pkg.Path() + "." + name}
		return TV{env.e.load(env.cur, ga, o.Type()), o.Type()}, true
	}
	return TV{}, false
}

func (env *SpecEnv) ghostVal(g *GhostVar) TV {
	e := env.e
	if strings.HasPrefix(g.Type, "seq ") {
		et := e.w.resolveType(strings.TrimSpace(g.Type[4:]), g.Pkg)
		if et == nil {
			env.fail("ghost %s: unknown element type %s", g.Name, g.Type)
		}
		return TV{GhostSeq{Name: g.Name, Elem: et}, nil}
	}
	t := e.w.resolveType(g.Type, g.Pkg)
	if t == nil {
		env.fail("ghost %s: unknown type %s", g.Name, g.Type)
	}
	v := e.assemble(t, "$g."+g.Name, func(p, so string) string {
		return e.cur(env.cur, p, nil, so)
	})
	return TV{v, t}
}

func (e *Exec) ghostSeqLen(s *State, name string) string {
	return e.cur(s, "$g."+name+".n", nil, "Int")
}

func (e *Exec) ghostSeqAt(s *State, g GhostSeq, idx string) Val {
	return e.assemble(g.Elem, "$g."+g.Name+".row", func(p, so string) string {
		return fmt.Sprintf("(%s %s)", e.cur(s, p, []string{"Int"}, so), idx)
	})
}

func (e *Exec) ghostSeqAppend(s *State, g GhostSeq, v Val, cond string) {
	n := e.ghostSeqLen(s, g.Name)
	e.disassemble(g.Elem, "$g."+g.Name+".row", v, func(p, so, term string) {
		old := fmt.Sprintf("(%s %s)", e.cur(s, p, []string{"Int"}, so), n)
		e.hwrite(s, p, []string{"Int"}, so, []string{n}, fmt.Sprintf("(ite %s %s %s)", cond, term, old))
	})
	e.hwrite(s, "$g."+g.Name+".n", nil, "Int", nil, fmt.Sprintf("(ite %s (+ %s 1) %s)", cond, n, n))
}

func derefType(t types.Type) (types.Type, bool) {
	if p, ok := t.Underlying().(*types.Pointer); ok {
		return p.Elem(), true
	}
	return t, false
}

// select field name of a value (auto-deref, embedded fields)
func (env *SpecEnv) selectField(x TV, name string) TV {
	e := env.e
	if x.T == nil {
		env.fail("selector .%s on untyped value", name)
	}
	obj, index, _ := types.LookupFieldOrMethod(x.T, true, env.pkgFor(x.T), name)
	v, ok := obj.(*types.Var)
	if !ok || !v.IsField() {
		env.fail("no field %s in %s", name, x.T)
	}
	cur := x
	for _, fi := range index {
		bt, isPtr := derefType(cur.T)
		st, ok := bt.Underlying().(*types.Struct)
		if !ok {
			env.fail("selector on non-struct %s", cur.T)
		}
		f := st.Field(fi)
		if isPtr {
			var addr Val
			switch pv := cur.V.(type) {
			case Scalar:
				if la, ok := e.localAddrs[pv.T]; ok {
					addr = LocalAddr{A: la.A, Path: append(append([]int{}, la.Path...), fi)}
				} else {
					addr = HeapAddr{Ref: pv.T, Key: structFam(bt, f.Name())}
				}
			case LocalAddr:
				addr = LocalAddr{A: pv.A, Path: append(append([]int{}, pv.Path...), fi)}
			case HeapAddr:
				addr = HeapAddr{Ref: pv.Ref, Key: pv.Key + "." + f.Name()}
			case ElemAddr:
				addr = ElemAddr{Arr: pv.Arr, Idx: pv.Idx, Key: pv.Key + "." + f.Name()}
			default:
				env.fail("selector through %T", cur.V)
			}
			cur = TV{e.load(env.cur, addr, f.Type()), f.Type()}
		} else {
			ag, ok := cur.V.(*Agg)
			if !ok {
				env.fail("selector on %T", cur.V)
			}
			cur = TV{ag.F[fi], f.Type()}
		}
	}
	return cur
}

func (env *SpecEnv) pkgFor(t types.Type) *types.Package {
	bt, _ := derefType(t)
	if n, ok := bt.(*types.Named); ok && n.Obj().Pkg() != nil {
		return n.Obj().Pkg()
	}
	return env.pkg
}

func (env *SpecEnv) eval(x SExpr) TV {
	e := env.e
	e.quietLoads++
	defer func() { e.quietLoads-- }()
	switch n := x.(type) {
	case SInt:
		return TV{S("%s", n.V), intT}
	case SBool:
		return TV{S("%v", n.V), boolT}
	case SStr:
		return TV{S("%s", e.strLit(n.V)), types.Typ[types.String]}
	case SNil:
		return TV{nil, nil}
	case SId:
		return env.ident(n.Name)
	case SUn:
		switch n.Op {
		case "!":
			return TV{S("(not %s)", env.evalBool(n.X)), boolT}
		case "-":
			v := env.eval(n.X)
			return TV{S("(- %s)", bterm(v)), v.T}
		case "*":
			v := env.eval(n.X)
			et, ok := derefType(v.T)
			if !ok {
				env.fail("deref of non-pointer %s", v.T)
			}
			return TV{e.load(env.cur, v.V, et), et}
		case "&":
			env.fail("address-of is not supported in specs")
		}
	case SBin:
		return env.binary(n)
	case SCond:
		c := env.evalBool(n.C)
		a, b := env.eval(n.A), env.eval(n.B)
		a, b = env.unifyNil(a, b)
		t := a.T
		if t == nil {
			t = b.T
		}
		return TV{e.iteVal(t, c, a.V, b.V), t}
	case SSel:
		// package-qualified name?
		if id, ok := n.X.(SId); ok {
			if _, isVar := env.vars[id.Name]; !isVar {
				if _, isLocal := env.lookupLocal(id.Name); !isLocal {
					if _, isGhost := e.w.ghosts[id.Name]; !isGhost {
						if p := e.w.pkgByName(id.Name, env.pkg); p != nil && (env.pkg == nil || env.pkg.Scope().Lookup(id.Name) == nil) {
							if tv, ok := env.pkgObject(p, n.Name); ok {
								return tv
							}
							env.fail("unknown %s.%s", id.Name, n.Name)
						}
					}
				}
			}
		}
		xv := env.eval(n.X)
		if gs, ok := xv.V.(GhostSeq); ok && n.Name == "len" {
			return TV{S("%s", e.ghostSeqLen(env.cur, gs.Name)), intT}
		}
		return env.selectField(xv, n.Name)
	case SIdx:
		xv := env.eval(n.X)
		if gs, ok := xv.V.(GhostSeq); ok {
			return TV{e.ghostSeqAt(env.cur, gs, bterm(env.eval(n.I))), gs.Elem}
		}
		switch u := xv.T.Underlying().(type) {
		case *types.Slice:
			sv := xv.V.(SliceV)
			i := bterm(env.eval(n.I))
			return TV{e.load(env.cur, ElemAddr{Arr: sv.Arr, Idx: addT(sv.Off, i), Key: "arr_" + sanitize(u.Elem().String())}, u.Elem()), u.Elem()}
		case *types.Map:
			k := env.eval(n.I)
			return TV{e.mapGet(env.cur, u, bterm(xv), e.keyTerm(u, k.V)), u.Elem()}
		}
		env.fail("index of %s", xv.T)
	case SSlice:
		xv := env.eval(n.X)
		sv, ok := xv.V.(SliceV)
		if !ok {
			env.fail("slice expression on %T", xv.V)
		}
		lo, hi := "0", sv.Len
		if n.Lo != nil {
			lo = bterm(env.eval(n.Lo))
		}
		if n.Hi != nil {
			hi = bterm(env.eval(n.Hi))
		}
		return TV{SliceV{Arr: sv.Arr, Off: addT(sv.Off, lo), Len: subT(hi, lo), Cap: subT(sv.Cap, lo)}, xv.T}
	case SCast:
		xv := env.eval(n.X)
		t := e.w.resolveType(n.T, env.pkg)
		if t == nil {
			env.fail("unknown type %s", n.T)
		}
		ag, ok := xv.V.(*Agg)
		if !ok || !isIface(xv.T) {
			env.fail("type cast of a non-interface value")
		}
		return TV{e.unbox(env.cur, t, ag.F[1].(Scalar).T), t}
	case SQuant:
		nenv := *env
		nenv.vars = map[string]TV{}
		for k, v := range env.vars {
			nenv.vars[k] = v
		}
		nenv.bound = map[string]bool{}
		for k := range env.bound {
			nenv.bound[k] = true
		}
		var binders []string
		for _, qv := range n.Vars {
			t := e.w.resolveType(qv.Type, env.pkg)
			if t == nil {
				env.fail("unknown type %q of quantified variable %s", qv.Type, qv.Name)
			}
			e.fresh++
			v := e.assemble(t, "", func(path, so string) string {
				e.declSort(so)
				sym := fmt.Sprintf("|%s%s!q%d|", qv.Name, path, e.fresh)
				binders = append(binders, fmt.Sprintf("(%s %s)", sym, so))
				nenv.binders = append(append([]string{}, nenv.binders...), fmt.Sprintf("(%s %s)", sym, so))
				nenv.bound[sym] = true
				return sym
			})
			nenv.vars[qv.Name] = TV{v, t}
		}
		savedB := e.curBinders
		e.curBinders = nenv.binders
		body := nenv.evalBool(n.Body)
		e.curBinders = savedB
		q := "exists"
		if n.All {
			q = "forall"
		}
		for _, b := range binders {
			if strings.HasSuffix(b, " Int)") {
				body = absoluteIndex(body, b[1:strings.Index(b, " ")])
			}
		}
		return TV{S("(%s (%s) %s)", q, strings.Join(binders, " "), body), boolT}
	case SCall:
		return env.call(n)
	}
	env.fail("cannot evaluate %T", x)
	return TV{}
}

func (env *SpecEnv) unifyNil(a, b TV) (TV, TV) {
	if a.V == nil && a.T == nil {
		if b.T == nil {
			env.fail("nil compared with nil")
		}
		return TV{zero(b.T), b.T}, b
	}
	if b.V == nil && b.T == nil {
		return a, TV{zero(a.T), a.T}
	}
	return a, b
}

func (env *SpecEnv) binary(n SBin) TV {
	e := env.e
	switch n.Op {
	case "&&":
		return TV{S("(and %s %s)", env.evalBool(n.X), env.evalBool(n.Y)), boolT}
	case "||":
		return TV{S("(or %s %s)", env.evalBool(n.X), env.evalBool(n.Y)), boolT}
	case "==>":
		return TV{S("(=> %s %s)", env.evalBool(n.X), env.evalBool(n.Y)), boolT}
	case "<==>":
		return TV{S("(= %s %s)", env.evalBool(n.X), env.evalBool(n.Y)), boolT}
	case "==", "!=":
		a, b := env.eval(n.X), env.eval(n.Y)
		a, b = env.unifyNil(a, b)
		t := a.T
		if t == nil {
			t = b.T
		}
		av, bv := a.V, b.V
		// executor-level addresses compared as refs
		if _, ok := av.(Scalar); !ok {
			if _, isAgg := av.(*Agg); !isAgg {
				if _, isSl := av.(SliceV); !isSl {
					av = e.scalarOf(av)
				}
			}
		}
		if _, ok := bv.(Scalar); !ok {
			if _, isAgg := bv.(*Agg); !isAgg {
				if _, isSl := bv.(SliceV); !isSl {
					bv = e.scalarOf(bv)
				}
			}
		}
		var eq string
		if isIface(t) {
			// nil comparison: by tag; otherwise tag and ref
			ag, bg := av.(*Agg), bv.(*Agg)
			if bg.F[0].(Scalar).T == "0" || ag.F[0].(Scalar).T == "0" {
				eq = fmt.Sprintf("(= %s %s)", ag.F[0].(Scalar).T, bg.F[0].(Scalar).T)
			} else {
				eq = e.eqVal(t, av, bv)
			}
		} else {
			eq = e.eqVal(t, av, bv)
		}
		if n.Op == "!=" {
			eq = "(not " + eq + ")"
		}
		return TV{S("%s", eq), boolT}
	case "<", "<=", ">", ">=":
		a, b := env.eval(n.X), env.eval(n.Y)
		if a.T != nil && sortOf(a.T) == "Str" {
			e.decl("(declare-fun |str.lt| (Str Str) Bool)")
			switch n.Op {
			case "<":
				return TV{S("(|str.lt| %s %s)", bterm(a), bterm(b)), boolT}
			case ">":
				return TV{S("(|str.lt| %s %s)", bterm(b), bterm(a)), boolT}
			case "<=":
				return TV{S("(not (|str.lt| %s %s))", bterm(b), bterm(a)), boolT}
			default:
				return TV{S("(not (|str.lt| %s %s))", bterm(a), bterm(b)), boolT}
			}
		}
		return TV{S("(%s %s %s)", n.Op, bterm(a), bterm(b)), boolT}
	case "+", "-", "*":
		a, b := env.eval(n.X), env.eval(n.Y)
		return TV{S("(%s %s %s)", n.Op, bterm(a), bterm(b)), a.T}
	case "/":
		a, b := env.eval(n.X), env.eval(n.Y)
		return TV{S("(div %s %s)", bterm(a), bterm(b)), a.T}
	case "%":
		a, b := env.eval(n.X), env.eval(n.Y)
		return TV{S("(mod %s %s)", bterm(a), bterm(b)), a.T}
	}
	env.fail("binary operator %s", n.Op)
	return TV{}
}

func (env *SpecEnv) inOld() *SpecEnv {
	n := *env
	if env.old != nil {
		if n.locals == nil {
			n.locals = env.cur
		}
		n.cur = env.old
		n.inOldCtx = true
	}
	return &n
}

func (env *SpecEnv) call(n SCall) TV {
	e := env.e
	arg := func(i int) TV {
		if i >= len(n.Args) {
			env.fail("%s: missing argument %d", n.Fun, i)
		}
		return env.eval(n.Args[i])
	}
	switch n.Fun {
	case "old":
		return env.inOld().eval(n.Args[0])
	case "at_head":
		// at_head(e): e - heap AND locals - as it was when the pass through the loop body under execution started
		// (only inside `loop k: step` clauses)
		if env.head == nil {
			env.fail("at_head(...) outside a loop step clause")
		}
		ne := *env
		ne.cur = env.head
		ne.locals = env.head
		return ne.eval(n.Args[0])
	case "loopentry":
		// loopentry(k, e): heap reads of e in the state in which loop k was entered
		k, ok := n.Args[0].(SInt)
		if !ok || len(n.Args) != 2 {
			env.fail("loopentry(k, e): k must be a loop ordinal")
		}
		var ki int
		fmt.Sscanf(k.V, "%d", &ki)
		le := e.loopEntry[ki]
		if le == nil {
			env.fail("loopentry(%d, ...): loop %d has not been entered on this path", ki, ki)
		}
		ne := *env
		if ne.locals == nil {
			ne.locals = env.cur
		}
		ne.cur = le
		return ne.eval(n.Args[1])
	case "len":
		v := arg(0)
		switch x := v.V.(type) {
		case SliceV:
			return TV{S("%s", x.Len), intT}
		case GhostSeq:
			return TV{S("%s", e.ghostSeqLen(env.cur, x.Name)), intT}
		}
		if mt, ok := v.T.Underlying().(*types.Map); ok {
			ref := bterm(v)
			if env.facts != nil {
				tmp := newState()
				tmp.ver, tmp.epoch = env.cur.ver, env.cur.epoch
				e.mapLenFacts(tmp, mt, ref)
				*env.facts = append(*env.facts, tmp.pc...)
			}
			return TV{S("%s", e.mapLen(env.cur, mt, ref)), intT}
		}
		if sortOf(v.T) == "Str" {
			e.decl("(declare-fun |str.len| (Str) Int)")
			return TV{S("(|str.len| %s)", bterm(v)), intT}
		}
		env.fail("len of %s", v.T)
	case "cap":
		return TV{S("%s", arg(0).V.(SliceV).Cap), intT}
	case "has":
		m := arg(0)
		mt, ok := m.T.Underlying().(*types.Map)
		if !ok {
			env.fail("has: not a map: %s", m.T)
		}
		return TV{S("%s", e.mapHas(env.cur, mt, bterm(m), e.keyTerm(mt, arg(1).V))), boolT}
	case "get":
		m := arg(0)
		mt, ok := m.T.Underlying().(*types.Map)
		if !ok {
			env.fail("get: not a map: %s", m.T)
		}
		return TV{e.mapGet(env.cur, mt, bterm(m), e.keyTerm(mt, arg(1).V)), mt.Elem()}
	case "seen":
		if env.loop == nil || env.loop.seen == "" {
			env.fail("seen() used outside a map-range loop")
		}
		k := arg(0)
		return TV{S("(%s %s)", env.loop.seen, e.scalarOf(k.V).T), boolT}
	case "fresh":
		// allocated by this call: not allocated in the old state, allocated now
		r := env.refOf(arg(0))
		if env.old == nil {
			env.fail("fresh() needs an old state")
		}
		return TV{S("(and (not (= %s null)) (not %s) %s)", r, e.isAlloc(env.old, r), e.isAlloc(env.cur, r)), boolT}
	case "allocated":
		r := env.refOf(arg(0))
		return TV{S("%s", e.isAlloc(env.cur, r)), boolT}
	case "min", "max":
		a, b := bterm(arg(0)), bterm(arg(1))
		cmp := ">="
		if n.Fun == "min" {
			cmp = "<="
		}
		return TV{S("(ite (%s %s %s) %s %s)", cmp, a, b, a, b), intT}
	case "istype":
		v := arg(0)
		id, ok := n.Args[1].(SId)
		tname := ""
		if ok {
			tname = id.Name
		} else {
			tname = specTypeString(n.Args[1])
		}
		t := e.w.resolveType(tname, env.pkg)
		if t == nil {
			env.fail("istype: unknown type %s", tname)
		}
		tid := typeID(t)
		e.w.typeNames[tid] = t
		return TV{S("(= %s %d)", v.V.(*Agg).F[0].(Scalar).T, tid), boolT}
	case "tagof":
		return TV{S("%s", arg(0).V.(*Agg).F[0].(Scalar).T), intT}
	case "refof":
		return TV{S("%s", arg(0).V.(*Agg).F[1].(Scalar).T), types.NewPointer(types.NewStruct(nil, nil))}
	case "errIs":
		er, tg := arg(0), arg(1)
		e.decl("(declare-fun |$errIs| (Ref Ref) Bool)")
		return TV{S("(and (not (= %s 0)) (|$errIs| %s %s))", er.V.(*Agg).F[0].(Scalar).T, er.V.(*Agg).F[1].(Scalar).T, tg.V.(*Agg).F[1].(Scalar).T), boolT}
	case "int", "int64", "int32", "uint32", "uint64":
		return TV{arg(0).V, types.Universe.Lookup(n.Fun).Type()}
	case "sameRef":
		return TV{S("(= %s %s)", env.refOf(arg(0)), env.refOf(arg(1))), boolT}
	case "lastarg":
		// lastarg("substr", k): the k-th argument (receiver = 0) of the latest logged call to a callee whose name contains
		// substr. Only defined where that call is on the path (guard with callseq / icalls); no such call: failed clause.
		lit, ok := n.Args[0].(SStr)
		ki, ok2 := SInt{}, false
		if len(n.Args) > 1 {
			ki, ok2 = n.Args[1].(SInt)
		}
		if !ok || !ok2 {
			env.fail("lastarg(\"f\", k): a string literal and an integer literal")
		}
		k := 0
		fmt.Sscanf(ki.V, "%d", &k)
		if env.foreign {
			// the callee's own call log is not known to the caller: an unknown value of the argument's type
			var at types.Type
			if env.calleeFn != nil {
				for _, b := range env.calleeFn.Blocks {
					for _, ins := range b.Instrs {
						ci, ok := ins.(ssa.CallInstruction)
						if !ok || at != nil || !strings.Contains(callLogName(ci.Common()), lit.V) {
							continue
						}
						cc := ci.Common()
						var ts []types.Type
						if cc.IsInvoke() {
							ts = append(ts, cc.Value.Type())
						} else if cc.Signature().Recv() != nil {
							ts = append(ts, cc.Signature().Recv().Type())
						}
						for i := 0; i < cc.Signature().Params().Len(); i++ {
							ts = append(ts, cc.Signature().Params().At(i).Type())
						}
						if k < len(ts) {
							at = ts[k]
						}
					}
				}
			}
			if at == nil {
				env.fail("lastarg(%q, %d) inside a callee contract applied at a call site: argument type unknown", lit.V, k)
			}
			return TV{e.symbolic(env.cur, at, "lastarg"), at}
		}
		st := env.cur
		last := -1
		for i := range st.calls {
			if strings.Contains(st.calls[i], lit.V) {
				last = i
			}
		}
		for _, cl := range st.cutLoops {
			for _, nm := range cl.Names {
				if strings.Contains(nm, lit.V) && cl.Pos > last {
					last = -1 // the latest such call may lie in an iteration that is not on this path
				}
			}
		}
		if last >= 0 && k < len(st.callRes[last].Args) && st.callRes[last].ArgT != nil {
			return TV{st.callRes[last].Args[k], st.callRes[last].ArgT[k]}
		}
		// no such call on this path (or it may lie in an iteration that is not on it): an unknown value of the argument's
		// type, taken from the call sites of the function under verification - so a clause guarded by a call count is
		// decided by its guard; a function that has no such call site at all fails the clause
		var at types.Type
		if e.fn != nil {
			for _, b := range e.fn.Blocks {
				for _, ins := range b.Instrs {
					ci, ok := ins.(ssa.CallInstruction)
					if !ok || at != nil || !strings.Contains(callLogName(ci.Common()), lit.V) {
						continue
					}
					cc := ci.Common()
					var ts []types.Type
					if cc.IsInvoke() {
						ts = append(ts, cc.Value.Type())
					} else if cc.Signature().Recv() != nil {
						ts = append(ts, cc.Signature().Recv().Type())
					}
					for i := 0; i < cc.Signature().Params().Len(); i++ {
						ts = append(ts, cc.Signature().Params().At(i).Type())
					}
					if k < len(ts) {
						at = ts[k]
					}
				}
			}
		}
		if at == nil {
			panic(noSuchCall{fmt.Sprintf("lastarg(%q, %d): the function under verification has no such call", lit.V, k)})
		}
		return TV{e.symbolic(st, at, "lastarg"), at}
	case "ncalls", "icalls", "callseq", "lastresult":
		// The call log of the function under verification (its own call sites, in path order).
		//   ncalls("substr")     how many calls to callees whose name contains substr happened so far
		//   icalls("substr")     ... since the iteration under execution of the innermost enclosing loop started
		//   callseq("substr")    position in the log of the latest such call (-1: none)
		//   lastresult("substr") the value the latest such call returned (first component of a tuple)
		// A loop is cut at its invariant: the iterations that are not on this path made an UNKNOWN number of calls to the
		// callees named in the loop body, so whenever such calls may be missing from the window the answer is an unknown
		// value (count: the logged number plus an arbitrary non-negative number).
		lit, ok := n.Args[0].(SStr)
		if !ok {
			env.fail("%s: argument must be a string literal", n.Fun)
		}
		unknownInt := func(base int, nonneg bool) TV {
			e.fresh++
			nm := fmt.Sprintf("|%s!%d|", n.Fun, e.fresh)
			e.decl(fmt.Sprintf("(declare-const %s Int)", nm))
			if nonneg {
				return TV{S("(+ %d (ite (>= %s 0) %s 0))", base, nm, nm), intT}
			}
			return TV{S("%s", nm), intT}
		}
		if env.foreign {
			// inside an applied callee contract the call log is the CALLEE's, which the caller does not know
			if n.Fun == "lastresult" {
				// an unknown value of the result type (from the call sites of the CALLEE, whose contract this is)
				var rt types.Type
				if env.calleeFn != nil {
					for _, b := range env.calleeFn.Blocks {
						for _, ins := range b.Instrs {
							if ci, ok := ins.(ssa.CallInstruction); ok && rt == nil && strings.Contains(callLogName(ci.Common()), lit.V) {
								rt = resultType(ci.Common().Signature())
							}
						}
					}
				}
				comp := 0
				if len(n.Args) > 1 {
					if ki, ok := n.Args[1].(SInt); ok {
						fmt.Sscanf(ki.V, "%d", &comp)
					}
				}
				if tp, ok := rt.(*types.Tuple); ok && comp < tp.Len() {
					rt = tp.At(comp).Type()
				}
				if rt == nil {
					env.fail("lastresult(%q) inside a callee contract applied at a call site: result type unknown", lit.V)
				}
				return TV{e.symbolic(env.cur, rt, "lastresult"), rt}
			}
			return unknownInt(0, false)
		}
		st := env.cur
		from, fromCut := 0, 0
		if n.Fun == "icalls" && e.curBlock != nil {
			for h, m := range st.iterMark {
				if e.inLoopBlocks(h, e.curBlock) && m.Cuts >= fromCut {
					from, fromCut = m.Pos, m.Cuts
				}
			}
		}
		cnt, last := 0, -1
		for i := from; i < len(st.calls); i++ {
			if strings.Contains(st.calls[i], lit.V) {
				cnt++
				last = i
			}
		}
		hidden, hiddenAfterLast := false, false
		for ci, cl := range st.cutLoops {
			if ci < fromCut {
				continue // cut before the pass under execution started (the enclosing loops themselves included)
			}
			for _, nm := range cl.Names {
				if strings.Contains(nm, lit.V) {
					hidden = true
					if cl.Pos > last {
						hiddenAfterLast = true
					}
				}
			}
		}
		switch n.Fun {
		case "ncalls", "icalls":
			if hidden {
				return unknownInt(cnt, true)
			}
			return TV{S("%d", cnt), intT}
		case "callseq":
			if hiddenAfterLast {
				return unknownInt(0, false)
			}
			return TV{S("%d", last), intT}
		}
		// lastresult("f") / lastresult("f", k): the (k-th component of the) value the latest such call returned
		comp := 0
		if len(n.Args) > 1 {
			ki, ok := n.Args[1].(SInt)
			if !ok {
				env.fail("lastresult(f, k): k must be an integer literal")
			}
			fmt.Sscanf(ki.V, "%d", &comp)
		}
		if last >= 0 && !hiddenAfterLast && st.callRes[last].V != nil {
			v, rt := st.callRes[last].V, st.callRes[last].T
			if tp, ok := v.(Tuple); ok {
				if comp >= len(tp.E) {
					env.fail("lastresult(%q, %d): the callee has %d results", lit.V, comp, len(tp.E))
				}
				v = tp.E[comp]
				rt = rt.(*types.Tuple).At(comp).Type()
			} else if comp != 0 {
				env.fail("lastresult(%q, %d): the callee has one result", lit.V, comp)
			}
			return TV{v, rt}
		}
		// no such call on this path, or the latest one may lie in an iteration that is not on it: an unknown value of the
		// callee's result type (taken from the call sites of the function under verification)
		var rt types.Type
		if e.fn != nil {
			for _, b := range e.fn.Blocks {
				for _, ins := range b.Instrs {
					if ci, ok := ins.(ssa.CallInstruction); ok && rt == nil && strings.Contains(callLogName(ci.Common()), lit.V) {
						rt = resultType(ci.Common().Signature())
					}
				}
			}
		}
		if rt == nil {
			panic(noSuchCall{fmt.Sprintf("lastresult(%q): the function under verification has no such call", lit.V)})
		}
		if tp, ok := rt.(*types.Tuple); ok {
			if comp >= tp.Len() {
				env.fail("lastresult(%q, %d): the callee has %d results", lit.V, comp, tp.Len())
			}
			rt = tp.At(comp).Type()
		}
		return TV{e.symbolic(st, rt, "lastresult"), rt}
	case "unchanged":
		a := env.eval(n.Args[0])
		b := env.inOld().eval(n.Args[0])
		return TV{S("%s", e.eqVal(a.T, a.V, b.V)), boolT}
	}
	if sf, ok := e.w.specFuncs[n.Fun]; ok {
		return env.specCall(sf, n)
	}
	if bi, ok := specBuiltins[n.Fun]; ok {
		return bi(env, n)
	}
	env.fail("unknown spec function %s", n.Fun)
	return TV{}
}

var specBuiltins = map[string]func(env *SpecEnv, n SCall) TV{}

func specTypeString(x SExpr) string {
	switch n := x.(type) {
	case SId:
		return n.Name
	case SSel:
		return specTypeString(n.X) + "." + n.Name
	case SUn:
		if n.Op == "*" {
			return "*" + specTypeString(n.X)
		}
	}
	return "?"
}

func (env *SpecEnv) refOf(v TV) string {
	switch x := v.V.(type) {
	case Scalar:
		return x.T
	case SliceV:
		return x.Arr
	case *Agg:
		if isIface(v.T) {
			return x.F[1].(Scalar).T
		}
	}
	return env.e.scalarOf(v.V).T
}

func (env *SpecEnv) specCall(sf *SpecFunc, n SCall) TV {
	e := env.e
	if len(n.Args) != len(sf.Params) {
		env.fail("spec func %s: %d arguments, want %d", sf.Name, len(n.Args), len(sf.Params))
	}
	if env.depth > 40 {
		env.fail("spec func recursion too deep: %s", sf.Name)
	}
	rt := e.w.resolveType(sf.Result, sf.Pkg)
	if rt == nil {
		env.fail("spec func %s: unknown result type %s", sf.Name, sf.Result)
	}
	var args []TV
	var ptypes []types.Type
	for i, p := range sf.Params {
		t := e.w.resolveType(p.Type, sf.Pkg)
		if t == nil {
			env.fail("spec func %s: unknown type %s", sf.Name, p.Type)
		}
		a := env.eval(n.Args[i])
		if a.V == nil && a.T == nil {
			a = TV{zero(t), t}
		}
		a.T = t
		args = append(args, a)
		ptypes = append(ptypes, t)
	}
	if sf.Body == nil {
		// uninterpreted, state-independent function of the argument leaves
		var terms, sorts []string
		for i, a := range args {
			ts, ss := e.leaves(ptypes[i], a.V)
			terms = append(terms, ts...)
			sorts = append(sorts, ss...)
		}
		rs := sortOf(rt)
		e.declSort(rs)
		f := "|spec." + sf.Name + "|"
		e.decl(fmt.Sprintf("(declare-fun %s (%s) %s)", f, strings.Join(sorts, " "), rs))
		e.usedSpecFuncs[sf.Name] = true
		return TV{S("%s", app(f, terms...)), rt}
	}
	benv := &SpecEnv{e: e, cur: env.cur, old: env.old, vars: map[string]TV{}, pkg: sf.Pkg, loop: env.loop, bound: env.bound, facts: env.facts, depth: env.depth + 1}
	if !sf.Named {
		for i, p := range sf.Params {
			benv.vars[p.Name] = args[i]
		}
		r := benv.eval(sf.Body)
		r.T = rt
		return r
	}
	// named predicate: arguments that are exactly enclosing bound variables become parameters of the predicate;
	// everything else is baked into the definition. One predicate per distinct expanded body.
	var pnames, psorts, actuals []string
	for i, p := range sf.Params {
		if sc, ok := args[i].V.(Scalar); ok && env.bound[sc.T] {
			ph := fmt.Sprintf("|%s!p|", p.Name)
			so := sortOf(ptypes[i])
			pnames = append(pnames, ph)
			psorts = append(psorts, so)
			actuals = append(actuals, sc.T)
			benv.vars[p.Name] = TV{S("%s", ph), ptypes[i]}
		} else {
			benv.vars[p.Name] = args[i]
		}
	}
	body := canonBound(bterm(benv.eval(sf.Body)))
	key := sf.Name + "|" + strings.Join(pnames, ",") + "|" + body
	name, ok := e.namedPreds[key]
	if !ok {
		name = "|" + e.freshName("spec."+sf.Name) + "|"
		e.namedPreds[key] = name
		rs := sortOf(rt)
		if len(pnames) == 0 {
			e.decl(fmt.Sprintf("(declare-fun %s () %s)", name, rs))
			e.declOwned(name, fmt.Sprintf("(assert (= %s %s))", name, body))
		} else {
			var bs []string
			for i := range pnames {
				bs = append(bs, fmt.Sprintf("(%s %s)", pnames[i], psorts[i]))
			}
			e.decl(fmt.Sprintf("(declare-fun %s (%s) %s)", name, strings.Join(psorts, " "), rs))
			e.declOwned(name, fmt.Sprintf("(assert (forall (%s) (! (= %s %s) :pattern (%s))))", strings.Join(bs, " "), app(name, pnames...), body, app(name, pnames...)))
		}
	}
	return TV{S("%s", app(name, actuals...)), rt}
}

// evaluate a boolean clause; returns the term and side facts (always-true axioms needed by the term)
func (e *Exec) evalClause(x SExpr, env *SpecEnv) (term string, facts []string) {
	env.e = e
	env.facts = &facts
	if env.bound == nil {
		env.bound = map[string]bool{}
	}
	saved := e.specHook
	seenFact := map[string]bool{}
	e.specHook = func(t, famSym, container string) {
		if famSym == "len" {
			// type invariant of slice values stored in the heap: a length is never negative
			if seenFact[t] {
				return
			}
			seenFact[t] = true
			body := fmt.Sprintf("(>= %s 0)", t)
			var bs []string
			for _, b := range e.curBinders {
				sym := b[1:strings.Index(b, " ")]
				if strings.Contains(t, sym) {
					bs = append(bs, b)
				}
			}
			if len(bs) > 0 {
				body = fmt.Sprintf("(forall (%s) (! %s :pattern (%s)))", strings.Join(bs, " "), body, t)
			}
			facts = append(facts, body)
			return
		}
		birth, ok := e.famBirth[famSym]
		if !ok || seenFact[t] {
			return
		}
		seenFact[t] = true
		body := fmt.Sprintf("(or (= %s null) (%s %s))", t, birth, t)
		if container != "" {
			body = fmt.Sprintf("(=> (%s %s) %s)", birth, container, body)
		}
		// close over the bound variables that occur in the term
		var bs []string
		for _, b := range e.curBinders {
			sym := b[1:strings.Index(b, " ")]
			if strings.Contains(t, sym) {
				bs = append(bs, b)
			}
		}
		if len(bs) > 0 {
			body = fmt.Sprintf("(forall (%s) (! %s :pattern (%s)))", strings.Join(bs, " "), body, t)
		}
		facts = append(facts, body)
	}
	defer func() { e.specHook = saved }()
	term = env.evalBool(x)
	return
}

// absoluteIndex: change of variables for a quantified Int variable v that is used as a slice index. If every
// occurrence of the shape (+ OFF v) uses the same OFF, substitute v := v - OFF, so that heap reads are indexed by the
// bare variable (clean triggers, no arithmetic inside function applications). A bijection on Int: semantics-preserving.
func absoluteIndex(body, v string) string {
	off := ""
	i := 0
	for {
		j := strings.Index(body[i:], v+")")
		if j < 0 {
			break
		}
		j += i
		// find the start of the enclosing "(+ OFF v)"
		// walk back over one s-expression (OFF) before " v)"
		k := j - 1
		if k < 0 || body[k] != ' ' {
			i = j + len(v)
			continue
		}
		end := k
		k--
		depth := 0
		for k >= 0 {
			c := body[k]
			if c == ')' {
				depth++
			} else if c == '(' {
				depth--
				if depth == 0 {
					break
				}
			} else if c == ' ' && depth == 0 {
				k++
				break
			} else if c == '|' && depth == 0 {
				// quoted symbol: jump to its opening bar
				k--
				for k >= 0 && body[k] != '|' {
					k--
				}
				if depth == 0 {
					// keep scanning only if preceded by non-space
				}
			}
			k--
		}
		if k < 3 {
			i = j + len(v)
			continue
		}
		cand := body[k:end]
		if !strings.HasSuffix(body[:k], "(+ ") || strings.Contains(cand, v) {
			i = j + len(v)
			continue
		}
		if off == "" {
			off = cand
		} else if off != cand {
			return body
		}
		i = j + len(v)
	}
	if off == "" || off == "0" {
		return body
	}
	const ph = "\x00ABS\x00"
	out := strings.ReplaceAll(body, "(+ "+off+" "+v+")", ph)
	out = strings.ReplaceAll(out, v, "(- "+v+" "+off+")")
	out = strings.ReplaceAll(out, ph, v)
	return out
}

var reBoundVar = regexp.MustCompile(`!q\d+\|`)

// canonical names for the bound variables inside a term (alpha-normalisation), so that equal bodies get equal text
func canonBound(t string) string {
	m := map[string]string{}
	return reBoundVar.ReplaceAllStringFunc(t, func(x string) string {
		if y, ok := m[x]; ok {
			return y
		}
		y := fmt.Sprintf("!c%d|", len(m))
		m[x] = y
		return y
	})
}
