// spec_parse.go: lexer and parser of the contract expression language.
package main

import (
	"fmt"
	"strings"
	"unicode"
)

type SExpr interface{}

type (
	SId   struct{ Name string }
	SInt  struct{ V string }
	SBool struct{ V bool }
	SStr  struct{ V string }
	SNil  struct{}
	SUn   struct {
		Op string
		X  SExpr
	}
	SBin struct {
		Op   string
		X, Y SExpr
	}
	SCond struct{ C, A, B SExpr }
	SCall struct {
		Fun  string
		Args []SExpr
	}
	SSel struct {
		X    SExpr
		Name string
	}
	SIdx   struct{ X, I SExpr }
	SSlice struct{ X, Lo, Hi SExpr }
	SCast  struct { // x.(T)
		X SExpr
		T string
	}
	QVar struct {
		Name string
		Type string
	}
	SQuant struct {
		All  bool
		Vars []QVar
		Body SExpr
	}
)

type tok struct {
	k string // "id", "int", "str", "op", "eof"
	v string
}

func lexSpec(src string) ([]tok, error) {
	var out []tok
	i := 0
	ops := []string{"<==>", "==>", "::", "==", "!=", "<=", ">=", "&&", "||", "(", ")", "[", "]", "{", "}", ",", ".", ":", "?", "+", "-", "*", "/", "%", "<", ">", "!", "&", ";", "#"}
	for i < len(src) {
		c := src[i]
		if c == ' ' || c == '\t' || c == '\n' {
			i++
			continue
		}
		if unicode.IsLetter(rune(c)) || c == '_' || c == '$' {
			j := i
			for j < len(src) && (unicode.IsLetter(rune(src[j])) || unicode.IsDigit(rune(src[j])) || src[j] == '_' || src[j] == '$') {
				j++
			}
			// name#k : k-th local of that name
			if j+1 < len(src) && src[j] == '#' && unicode.IsDigit(rune(src[j+1])) {
				j++
				for j < len(src) && unicode.IsDigit(rune(src[j])) {
					j++
				}
			}
			out = append(out, tok{"id", src[i:j]})
			i = j
			continue
		}
		if unicode.IsDigit(rune(c)) {
			j := i
			for j < len(src) && (unicode.IsDigit(rune(src[j])) || src[j] == '_') {
				j++
			}
			out = append(out, tok{"int", strings.ReplaceAll(src[i:j], "_", "")})
			i = j
			continue
		}
		if c == '"' {
			j := i + 1
			for j < len(src) && src[j] != '"' {
				j++
			}
			if j >= len(src) {
				return nil, fmt.Errorf("unterminated string")
			}
			out = append(out, tok{"str", src[i+1 : j]})
			i = j + 1
			continue
		}
		matched := false
		for _, op := range ops {
			if strings.HasPrefix(src[i:], op) {
				out = append(out, tok{"op", op})
				i += len(op)
				matched = true
				break
			}
		}
		if !matched {
			return nil, fmt.Errorf("unexpected character %q at %d in %q", c, i, src)
		}
	}
	out = append(out, tok{"eof", ""})
	return out, nil
}

type sparser struct {
	t   []tok
	i   int
	src string
}

func parseSpec(src string) (x SExpr, err error) {
	t, err := lexSpec(src)
	if err != nil {
		return nil, err
	}
	p := &sparser{t: t, src: src}
	defer func() {
		if r := recover(); r != nil {
			if s, ok := r.(string); ok {
				err = fmt.Errorf("%s in %q", s, src)
				return
			}
			panic(r)
		}
	}()
	x = p.expr()
	if p.peek().k != "eof" {
		panic(fmt.Sprintf("unexpected %q", p.peek().v))
	}
	return x, nil
}

func (p *sparser) peek() tok { return p.t[p.i] }
func (p *sparser) next() tok { t := p.t[p.i]; p.i++; return t }
func (p *sparser) isOp(v string) bool {
	return p.t[p.i].k == "op" && p.t[p.i].v == v
}
func (p *sparser) isId(v string) bool {
	return p.t[p.i].k == "id" && p.t[p.i].v == v
}
func (p *sparser) expect(v string) {
	if !p.isOp(v) {
		panic(fmt.Sprintf("expected %q, got %q", v, p.peek().v))
	}
	p.i++
}

func (p *sparser) expr() SExpr { return p.iff() }

func (p *sparser) iff() SExpr {
	x := p.implies()
	for p.isOp("<==>") {
		p.next()
		y := p.implies()
		x = SBin{"<==>", x, y}
	}
	return x
}

func (p *sparser) implies() SExpr {
	x := p.cond()
	if p.isOp("==>") {
		p.next()
		y := p.implies()
		return SBin{"==>", x, y}
	}
	return x
}

func (p *sparser) cond() SExpr {
	c := p.or()
	if p.isOp("?") {
		p.next()
		a := p.cond()
		p.expect(":")
		b := p.cond()
		return SCond{c, a, b}
	}
	return c
}

func (p *sparser) or() SExpr {
	x := p.and()
	for p.isOp("||") {
		p.next()
		x = SBin{"||", x, p.and()}
	}
	return x
}

func (p *sparser) and() SExpr {
	x := p.cmp()
	for p.isOp("&&") {
		p.next()
		x = SBin{"&&", x, p.cmp()}
	}
	return x
}

func (p *sparser) cmp() SExpr {
	x := p.add()
	var res SExpr
	for {
		t := p.peek()
		if t.k == "op" && (t.v == "==" || t.v == "!=" || t.v == "<" || t.v == "<=" || t.v == ">" || t.v == ">=") {
			p.next()
			y := p.add()
			c := SBin{t.v, x, y}
			if res == nil {
				res = c
			} else {
				res = SBin{"&&", res, c}
			}
			x = y
			continue
		}
		break
	}
	if res != nil {
		return res
	}
	return x
}

func (p *sparser) add() SExpr {
	x := p.mul()
	for p.isOp("+") || p.isOp("-") {
		op := p.next().v
		x = SBin{op, x, p.mul()}
	}
	return x
}

func (p *sparser) mul() SExpr {
	x := p.unary()
	for p.isOp("*") || p.isOp("/") || p.isOp("%") {
		op := p.next().v
		x = SBin{op, x, p.unary()}
	}
	return x
}

func (p *sparser) unary() SExpr {
	if p.isOp("!") || p.isOp("-") || p.isOp("*") || p.isOp("&") {
		op := p.next().v
		return SUn{op, p.unary()}
	}
	return p.postfix()
}

func (p *sparser) postfix() SExpr {
	x := p.primary()
	for {
		switch {
		case p.isOp("."):
			p.next()
			if p.isOp("(") {
				p.next()
				ty := p.typeExpr()
				p.expect(")")
				x = SCast{x, ty}
				continue
			}
			t := p.next()
			if t.k != "id" {
				panic("expected field name after '.'")
			}
			x = SSel{x, t.v}
		case p.isOp("["):
			p.next()
			if p.isOp(":") {
				p.next()
				hi := p.expr()
				p.expect("]")
				x = SSlice{x, nil, hi}
				continue
			}
			i := p.expr()
			if p.isOp(":") {
				p.next()
				var hi SExpr
				if !p.isOp("]") {
					hi = p.expr()
				}
				p.expect("]")
				x = SSlice{x, i, hi}
				continue
			}
			p.expect("]")
			x = SIdx{x, i}
		case p.isOp("("):
			// call: only on identifiers / selectors (pkg.f)
			name := ""
			switch f := x.(type) {
			case SId:
				name = f.Name
			case SSel:
				if id, ok := f.X.(SId); ok {
					name = id.Name + "." + f.Name
				}
			}
			if name == "" {
				panic("call of a non-name")
			}
			p.next()
			var args []SExpr
			for !p.isOp(")") {
				args = append(args, p.expr())
				if p.isOp(",") {
					p.next()
				}
			}
			p.expect(")")
			x = SCall{name, args}
		default:
			return x
		}
	}
}

func (p *sparser) typeExpr() string {
	var sb strings.Builder
	depth := 0
	for {
		t := p.peek()
		if t.k == "eof" {
			break
		}
		if t.k == "op" {
			if t.v == "[" {
				depth++
			} else if t.v == "]" {
				depth--
			} else if depth == 0 && (t.v == "," || t.v == "::" || t.v == ")") {
				break
			} else if t.v != "*" && t.v != "." && t.v != "{" && t.v != "}" {
				break
			}
		}
		sb.WriteString(t.v)
		p.next()
	}
	return sb.String()
}

func (p *sparser) primary() SExpr {
	t := p.next()
	switch t.k {
	case "int":
		return SInt{t.v}
	case "str":
		return SStr{t.v}
	case "id":
		switch t.v {
		case "true":
			return SBool{true}
		case "false":
			return SBool{false}
		case "nil":
			return SNil{}
		case "forall", "exists":
			var vars []QVar
			var pending []string
			for {
				n := p.next()
				if n.k != "id" {
					panic("expected quantified variable name")
				}
				pending = append(pending, n.v)
				if p.isOp(",") {
					p.next()
					continue
				}
				ty := p.typeExpr()
				if ty == "" {
					panic("expected type of quantified variable")
				}
				for _, nm := range pending {
					vars = append(vars, QVar{nm, ty})
				}
				pending = nil
				if p.isOp(",") {
					p.next()
					continue
				}
				break
			}
			p.expect("::")
			body := p.expr()
			return SQuant{All: t.v == "forall", Vars: vars, Body: body}
		}
		return SId{t.v}
	case "op":
		if t.v == "(" {
			x := p.expr()
			p.expect(")")
			return x
		}
	}
	panic(fmt.Sprintf("unexpected token %q", t.v))
}

func isTypeStart(t tok) bool { return t.k == "id" || (t.k == "op" && (t.v == "*" || t.v == "[")) }

// freeIdents collects identifier names used in an expression (for dependency scans)
func walkSpec(x SExpr, f func(SExpr)) {
	if x == nil {
		return
	}
	f(x)
	switch n := x.(type) {
	case SUn:
		walkSpec(n.X, f)
	case SBin:
		walkSpec(n.X, f)
		walkSpec(n.Y, f)
	case SCond:
		walkSpec(n.C, f)
		walkSpec(n.A, f)
		walkSpec(n.B, f)
	case SCall:
		for _, a := range n.Args {
			walkSpec(a, f)
		}
	case SSel:
		walkSpec(n.X, f)
	case SIdx:
		walkSpec(n.X, f)
		walkSpec(n.I, f)
	case SSlice:
		walkSpec(n.X, f)
		walkSpec(n.Lo, f)
		walkSpec(n.Hi, f)
	case SCast:
		walkSpec(n.X, f)
	case SQuant:
		walkSpec(n.Body, f)
	}
}
