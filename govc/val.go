// govc — verification-condition generator for Go (go/ssa NaiveForm) against comment contracts.
// val.go: symbolic values, states, heap families.
package main

import (
	"fmt"
	"go/types"
	"hash/fnv"
	"sort"
	"strings"

	"golang.org/x/tools/go/ssa"
)

// ---------- symbolic values ----------

type Val interface{}

type Scalar struct{ T string } // SMT term
type Agg struct{ F []Val }     // struct value (flattened at executor level); interfaces are Agg{tag, ref}
type Tuple struct{ E []Val }   // multi-value
type LocalAddr struct {        // pointer into a local cell
	A    *ssa.Alloc
	Path []int
}
type HeapAddr struct { // pointer to a heap struct field / pointee
	Ref string // SMT Ref term
	Key string // heap family prefix, e.g. "ptr_VersionVector" or "T.f"
}
type SliceV struct{ Arr, Off, Len, Cap string }
type ElemAddr struct { // address of arr[idx](.path); families "arr_<T>(.f)*" : (Ref Int) -> sort
	Arr, Idx string
	Key      string
}
type ArrPtr struct { // pointer to a fixed-size array object (new [n]T)
	Arr string
	Len int64
}
type GlobalAddr struct {
	Name string
	G    *ssa.Global
}
type ClosureV struct {
	Fn       *ssa.Function
	Bindings []Val
}
type FuncV struct{ Fn *ssa.Function } // static function value
type Iter struct {
	MapRef string
	MapTy  *types.Map
	ID     int
}
type GhostSeq struct { // ghost sequence: families $g.<name>.n : () and $g.<name>.row : Int -> sort
	Name string
	Elem types.Type
}

func S(f string, a ...interface{}) Scalar { return Scalar{fmt.Sprintf(f, a...)} }

func cloneVal(v Val) Val {
	if a, ok := v.(*Agg); ok {
		n := &Agg{F: make([]Val, len(a.F))}
		for i := range a.F {
			n.F[i] = cloneVal(a.F[i])
		}
		return n
	}
	return v
}

// ---------- state ----------

type deferred struct {
	call *ssa.Defer
	args []Val
	fn   Val
}

// the call log of the function under verification
type callResult struct {
	V    Val
	T    types.Type
	Args []Val          // receiver first
	ArgT []types.Type
}

// a loop cut at its invariant: the callees named in its body ran an unknown number of times in the iterations that are
// not on this path
type cutLoop struct {
	Head  *ssa.BasicBlock
	Pos   int // len(calls) when the head was passed
	Names []string
}

// where the pass through a loop body that is under execution started: position in the call log, and how many loops had
// been cut by then (loops cut LATER lie inside this pass: their hidden iterations count for it)
type iterMark struct {
	Pos, Cuts int
}

type State struct {
	regs   map[ssa.Value]Val
	cells  map[*ssa.Alloc]Val
	ver    map[string]string // heap family -> current SMT function symbol
	epoch  int               // bumped by havoc-all; version-0 symbols carry it
	gepoch int               // generation of the modelled stores / ghost variables (bumped by 'modifies *' contracts)
	pc     []string          // assumptions
	prev   *ssa.BasicBlock
	seenFn map[int]string // iterator id -> current "seen" predicate symbol
	defers []deferred
	trace  []string // human-readable branch decisions
	panicking bool
	calls   []string        // names of the callees called so far on this path (for ncalls(...) in specs)
	callRes []callResult    // parallel to calls: the value the call returned on this path (nil until it returned)
	cutLoops []cutLoop      // loops cut at their invariant so far: callees that may have run an unknown number of times
	iterMark map[*ssa.BasicBlock]iterMark // loop head -> where the iteration under execution started
	tagOf   map[string]int  // dynamic type decided on this path for an interface value's tag term (closed-interface dispatch)
	private map[string]bool // objects allocated by this execution whose address has not escaped (unknown callees cannot touch them)
}

func newState() *State {
	return &State{regs: map[ssa.Value]Val{}, cells: map[*ssa.Alloc]Val{}, ver: map[string]string{}, seenFn: map[int]string{}, tagOf: map[string]int{}}
}

func (s *State) clone() *State {
	n := newState()
	for k, v := range s.regs {
		n.regs[k] = v
	}
	for k, v := range s.cells {
		n.cells[k] = cloneVal(v)
	}
	for k, v := range s.ver {
		n.ver[k] = v
	}
	for k, v := range s.seenFn {
		n.seenFn[k] = v
	}
	n.epoch = s.epoch
	n.gepoch = s.gepoch
	for k, t := range s.tagOf {
		n.tagOf[k] = t
	}
	n.pc = append([]string{}, s.pc...)
	n.prev = s.prev
	n.defers = append([]deferred{}, s.defers...)
	n.trace = append([]string{}, s.trace...)
	n.panicking = s.panicking
	n.calls = append([]string{}, s.calls...)
	n.callRes = append([]callResult{}, s.callRes...)
	n.cutLoops = append([]cutLoop{}, s.cutLoops...)
	if s.iterMark != nil {
		n.iterMark = map[*ssa.BasicBlock]iterMark{}
		for k, v := range s.iterMark {
			n.iterMark[k] = v
		}
	}
	if s.private != nil {
		n.private = map[string]bool{}
		for k := range s.private {
			n.private[k] = true
		}
	}
	return n
}

func (s *State) assume(f string, a ...interface{}) {
	s.pc = append(s.pc, fmt.Sprintf(f, a...))
}

// ---------- sorts and type helpers ----------

func isIface(t types.Type) bool { _, ok := t.Underlying().(*types.Interface); return ok }

// type arguments of generic instantiations are dropped from names (Name[T1, T2] -> Name[]): the body of a generic
// function is verified once over Name[V], its callers see Name[*Concrete]; both must read the same heap families.
// (Fields whose own type mentions a type parameter get their sort appended by structFamT, so no family has two sorts.)
func dropTypeArgs(s string) string {
	for {
		changed := false
		for i := 0; i < len(s); i++ {
			if s[i] != '[' || i == 0 {
				continue
			}
			c := s[i-1]
			if !(c == '_' || c >= '0' && c <= '9' || c >= 'a' && c <= 'z' || c >= 'A' && c <= 'Z') {
				continue // [12]byte, []T
			}
			// the identifier before the bracket
			j := i - 1
			for j >= 0 && (s[j] == '_' || s[j] >= '0' && s[j] <= '9' || s[j] >= 'a' && s[j] <= 'z' || s[j] >= 'A' && s[j] <= 'Z') {
				j--
			}
			if s[j+1:i] == "map" {
				continue
			}
			// innermost bracket group only
			k := i + 1
			for k < len(s) && s[k] != ']' && s[k] != '[' {
				k++
			}
			if k >= len(s) || s[k] != ']' || k == i+1 {
				continue
			}
			s = s[:i+1] + s[k:]
			changed = true
			break
		}
		if !changed {
			return s
		}
	}
}

func sanitize(s string) string {
	s = dropTypeArgs(s)
	r := strings.NewReplacer("github.com/yorkie-team/yorkie/", "", "/", "_", "*", "P", "[", "_", "]", "_", " ", "", "{", "", "}", "", "(", "", ")", "", ",", "_", "-", "_", "|", "_", ";", "_", "\"", "", "\\", "_")
	return r.Replace(s)
}

func sortOf(t types.Type) string {
	switch u := t.Underlying().(type) {
	case *types.Basic:
		if u.Info()&types.IsBoolean != 0 {
			return "Bool"
		}
		if u.Info()&types.IsInteger != 0 {
			return "Int"
		}
		if u.Info()&types.IsString != 0 {
			return "Str"
		}
		if u.Info()&types.IsFloat != 0 {
			return "Float"
		}
		if u.Kind() == types.UnsafePointer || u.Kind() == types.UntypedNil {
			return "Ref"
		}
	case *types.Map, *types.Pointer, *types.Signature, *types.Chan:
		return "Ref"
	case *types.Array:
		return "Arr" + fmt.Sprint(u.Len()) + "_" + sanitize(u.Elem().String()) // opaque sort for [12]byte etc.
	case *types.TypeParam:
		return "TP_" + sanitize(t.String())
	}
	return "U_" + sanitize(t.String())
}

func intRange(b *types.Basic) (string, string, bool) {
	switch b.Kind() {
	case types.Int64, types.Int:
		return "(- 9223372036854775808)", "9223372036854775807", true
	case types.Int32:
		return "(- 2147483648)", "2147483647", true
	case types.Int16:
		return "(- 32768)", "32767", true
	case types.Int8:
		return "(- 128)", "127", true
	case types.Uint8:
		return "0", "255", true
	case types.Uint16:
		return "0", "65535", true
	case types.Uint32:
		return "0", "4294967295", true
	case types.Uint64, types.Uint, types.Uintptr:
		return "0", "18446744073709551615", true
	}
	return "", "", false
}

func typeID(t types.Type) int {
	h := fnv.New32a()
	h.Write([]byte(t.String()))
	return int(h.Sum32()%1000000000) + 1
}

func zero(t types.Type) Val {
	switch u := t.Underlying().(type) {
	case *types.Struct:
		a := &Agg{}
		for i := 0; i < u.NumFields(); i++ {
			a.F = append(a.F, zero(u.Field(i).Type()))
		}
		return a
	case *types.Slice:
		return SliceV{Arr: "null", Off: "0", Len: "0", Cap: "0"}
	case *types.Interface:
		return &Agg{F: []Val{S("0"), S("null")}}
	}
	switch so := sortOf(t); so {
	case "Int":
		return S("0")
	case "Bool":
		return S("false")
	case "Ref":
		return S("null")
	default:
		return S("|zero_%s|", so)
	}
}

// ---------- uniform leaf flattening ----------

// assemble a Val of type t from leaf terms provided by get(pathSuffix, sort)
func (e *Exec) assemble(t types.Type, prefix string, get func(path, sort string) string) Val {
	switch u := t.Underlying().(type) {
	case *types.Struct:
		a := &Agg{}
		for i := 0; i < u.NumFields(); i++ {
			a.F = append(a.F, e.assemble(u.Field(i).Type(), prefix+"."+u.Field(i).Name(), get))
		}
		return a
	case *types.Slice:
		return SliceV{Arr: get(prefix+".arr", "Ref"), Off: get(prefix+".off", "Int"), Len: get(prefix+".len", "Int"), Cap: get(prefix+".cap", "Int")}
	case *types.Interface:
		return &Agg{F: []Val{Scalar{get(prefix+".$tag", "Int")}, Scalar{get(prefix+".$ref", "Ref")}}}
	}
	so := sortOf(t)
	e.declSort(so)
	return Scalar{get(prefix, so)}
}

func (e *Exec) disassemble(t types.Type, prefix string, v Val, put func(path, sort, term string)) {
	switch u := t.Underlying().(type) {
	case *types.Struct:
		ag, ok := v.(*Agg)
		if !ok {
			panic(fmt.Sprintf("disassemble: struct %s from %T", t, v))
		}
		for i := 0; i < u.NumFields(); i++ {
			e.disassemble(u.Field(i).Type(), prefix+"."+u.Field(i).Name(), ag.F[i], put)
		}
		return
	case *types.Slice:
		sv := v.(SliceV)
		put(prefix+".arr", "Ref", sv.Arr)
		put(prefix+".off", "Int", sv.Off)
		put(prefix+".len", "Int", sv.Len)
		put(prefix+".cap", "Int", sv.Cap)
		return
	case *types.Interface:
		put(prefix+".$tag", "Int", v.(*Agg).F[0].(Scalar).T)
		put(prefix+".$ref", "Ref", v.(*Agg).F[1].(Scalar).T)
		return
	}
	sc, ok := v.(Scalar)
	if !ok {
		sc = e.scalarOf(v)
	}
	put(prefix, sortOf(t), sc.T)
}

// leaves of a value of type t, in assemble order
func (e *Exec) leaves(t types.Type, v Val) (terms, sorts []string) {
	e.disassemble(t, "", v, func(_, so, term string) { terms = append(terms, term); sorts = append(sorts, so) })
	return
}

// scalarOf: pointer-like executor values that must become an SMT Ref term (addresses stored in the heap)
func (e *Exec) scalarOf(v Val) Scalar {
	switch x := v.(type) {
	case Scalar:
		return x
	case ArrPtr:
		return S("%s", x.Arr)
	case HeapAddr:
		// interior pointer: an opaque ref determined by (object, field)
		f := fmt.Sprintf("|$interior.%s|", x.Key)
		e.decl(fmt.Sprintf("(declare-fun %s (Ref) Ref)", f))
		// interior pointers of different fields are different references, and one field's are injective in the object
		e.decl("(declare-fun |$ikind| (Ref) Int)")
		e.decl("(declare-fun |$iowner| (Ref) Ref)")
		e.declOwned(f, fmt.Sprintf("(assert (forall ((r Ref)) (! (and (= (|$ikind| (%s r)) %d) (= (|$iowner| (%s r)) r) (not (= (%s r) null))) :pattern ((%s r)))))", f, typeIDStr(x.Key), f, f, f))
		return S("(%s %s)", f, x.Ref)
	case ClosureV:
		n := "|" + e.freshName("closure") + "|"
		e.decl(fmt.Sprintf("(declare-const %s Ref)", n))
		e.closures[n] = x
		return S("%s", n)
	case FuncV:
		n := "|fn_" + sanitize(x.Fn.String()) + "|"
		e.decl(fmt.Sprintf("(declare-const %s Ref)", n))
		e.funcvals[n] = x
		return S("%s", n)
	case GlobalAddr:
		n := "|&glob_" + sanitize(x.Name) + "|"
		e.decl(fmt.Sprintf("(declare-const %s Ref)", n))
		e.declOwned(n, fmt.Sprintf("(assert (not (= %s null)))", n))
		return S("%s", n)
	case LocalAddr:
		n := "|" + e.freshName("&local") + "|"
		e.decl(fmt.Sprintf("(declare-const %s Ref)", n))
		e.declOwned(n, fmt.Sprintf("(assert (not (= %s null)))", n))
		e.localAddrs[n] = x
		return S("%s", n)
	case ElemAddr:
		e.decl(fmt.Sprintf("(declare-fun |$elemaddr.%s| (Ref Int) Ref)", x.Key))
		return S("(|$elemaddr.%s| %s %s)", x.Key, x.Arr, x.Idx)
	}
	panic(fmt.Sprintf("scalarOf %T", v))
}

// ---------- heap families ----------

type havocRec struct {
	prevEpoch int
	prevVer   map[string]string
	private   []string
	stable    map[string][]string // family -> refs whose value in that family is assumed stable
}

type famSig struct {
	Args []string
	Res  string
}

func (e *Exec) famDecl(fam string, args []string, res string) {
	if _, ok := e.fams[fam]; !ok {
		e.fams[fam] = famSig{Args: args, Res: res}
		for _, a := range append(append([]string{}, args...), res) {
			e.declSort(a)
		}
	}
}

func isGhostFam(fam string) bool { return strings.HasPrefix(fam, "$") }

// the modelled stores (go-memdb tables, btrees) and ghost variables
func storeGhostFam(fam string) bool {
	return strings.HasPrefix(fam, "$db.") || strings.HasPrefix(fam, "$g.") || strings.HasPrefix(fam, "$bt.")
}

func (e *Exec) stableFam(fam string) bool {
	for _, p := range e.stablePrefixes {
		if fam == p || strings.HasPrefix(fam, p+".") {
			return true
		}
	}
	return false
}

// current SMT function symbol of a family in state s
func (e *Exec) cur(s *State, fam string, args []string, res string) string {
	e.famDecl(fam, args, res)
	if n, ok := s.ver[fam]; ok {
		return n
	}
	ep := s.epoch
	if isGhostFam(fam) || e.stableFam(fam) {
		ep = 0 // ghost families and families of stable types are never havocked by unknown calls
	}
	name := fmt.Sprintf("|%s@e%d|", fam, ep)
	if s.gepoch > 0 && storeGhostFam(fam) {
		// ... but a contract that says 'modifies *' starts a new generation of the modelled stores and ghost variables
		name = fmt.Sprintf("|%s@g%d|", fam, s.gepoch)
	}
	if !e.declSet[fmt.Sprintf("(declare-fun %s (%s) %s)", name, strings.Join(args, " "), res)] {
		e.decl(fmt.Sprintf("(declare-fun %s (%s) %s)", name, strings.Join(args, " "), res))
		// nil maps are empty; null counts as allocated (so frames and heap invariants cover it)
		switch {
		case strings.HasPrefix(fam, "has_"):
			e.declOwned(name, fmt.Sprintf("(assert (forall ((k %s)) (! (not (%s null k)) :pattern ((%s null k)))))", args[1], name, name))
		case strings.HasPrefix(fam, "len_"):
			e.declOwned(name, fmt.Sprintf("(assert (= (%s null) 0))", name))
		case fam == "$alloc":
			e.declOwned(name, fmt.Sprintf("(assert (%s null))", name))
		}
		if rec, ok := e.havocRecs[ep]; ok && len(rec.stable[fam]) > 0 && len(args) == 1 {
			old, ok := rec.prevVer[fam]
			if !ok {
				tmp := newState()
				tmp.epoch = rec.prevEpoch
				old = e.cur(tmp, fam, args, res)
			}
			for _, p := range rec.stable[fam] {
				e.declOwned(name, fmt.Sprintf("(assert (= (%s %s) (%s %s)))", name, p, old, p))
			}
		}
		if rec, ok := e.havocRecs[ep]; ok && len(rec.private) > 0 && len(args) > 0 && args[0] == "Ref" && !isGhostFam(fam) {
			// objects private to this execution were out of the unknown callee's reach: their fields are unchanged
			old, ok := rec.prevVer[fam]
			if !ok {
				tmp := newState()
				tmp.epoch = rec.prevEpoch
				old = e.cur(tmp, fam, args, res)
			}
			for _, p := range rec.private {
				if len(args) == 1 {
					e.declOwned(name, fmt.Sprintf("(assert (= (%s %s) (%s %s)))", name, p, old, p))
				} else {
					var bs, as []string
					for i := 1; i < len(args); i++ {
						bs = append(bs, fmt.Sprintf("(z%d %s)", i, args[i]))
						as = append(as, fmt.Sprintf("z%d", i))
					}
					e.declOwned(name, fmt.Sprintf("(assert (forall (%s) (! (= (%s %s %s) (%s %s %s)) :pattern ((%s %s %s)))))", strings.Join(bs, " "), name, p, strings.Join(as, " "), old, p, strings.Join(as, " "), name, p, strings.Join(as, " ")))
				}
			}
		}
	}
	if res == "Ref" {
		if _, ok := e.famBirth[name]; !ok {
			e.famBirth[name] = e.epochAlloc[ep]
			if ep == 0 {
				e.cur(newState(), "$alloc", []string{"Ref"}, "Bool")
			}
		}
	}
	return name
}

// write: define new version pointwise (macro over the previous version)
func (e *Exec) hwrite(s *State, fam string, args []string, res string, at []string, val string) {
	old := e.cur(s, fam, args, res)
	var params, conds, as []string
	for i, so := range args {
		p := fmt.Sprintf("x%d", i)
		params = append(params, fmt.Sprintf("(%s %s)", p, so))
		conds = append(conds, fmt.Sprintf("(= %s %s)", p, at[i]))
		as = append(as, p)
	}
	e.fresh++
	nw := fmt.Sprintf("|%s!%d|", fam, e.fresh)
	cond := "true"
	if len(conds) == 1 {
		cond = conds[0]
	} else if len(conds) > 1 {
		cond = "(and " + strings.Join(conds, " ") + ")"
	}
	e.macros[nw] = true
	if len(args) == 0 {
		e.decl(fmt.Sprintf("(define-fun %s () %s %s)", nw, res, val))
	} else {
		e.decl(fmt.Sprintf("(define-fun %s (%s) %s (ite %s %s (%s %s)))",
			nw, strings.Join(params, " "), res, cond, val, old, strings.Join(as, " ")))
	}
	s.ver[fam] = nw
	e.written[fam] = true
	if res == "Ref" && fam != "$alloc" {
		e.famBirth[nw] = e.cur(s, "$alloc", []string{"Ref"}, "Bool")
	}
}

// havoc a heap family: fresh uninterpreted version
func (e *Exec) hhavoc(s *State, fam string, args []string, res string) string {
	e.famDecl(fam, args, res)
	e.fresh++
	nw := fmt.Sprintf("|%s!%d|", fam, e.fresh)
	e.decl(fmt.Sprintf("(declare-fun %s (%s) %s)", nw, strings.Join(args, " "), res))
	s.ver[fam] = nw
	e.written[fam] = true
	if res == "Ref" && fam != "$alloc" {
		e.famBirth[nw] = e.cur(s, "$alloc", []string{"Ref"}, "Bool")
	}
	return nw
}

// body annotated with the pattern (fn args) if fn is an uninterpreted symbol (macros cannot be used in patterns)
func (e *Exec) withPat(body, fn string, args []string) string {
	if e.macros[fn] {
		return body
	}
	return fmt.Sprintf("(! %s :pattern (%s))", body, app(fn, args...))
}

func app(fn string, args ...string) string {
	if len(args) == 0 {
		return fn
	}
	return "(" + fn + " " + strings.Join(args, " ") + ")"
}

// havoc every non-ghost family (unknown call); $alloc grows monotonically
func (e *Exec) havocAll(s *State) {
	before := e.cur(s, "$alloc", []string{"Ref"}, "Bool")
	// remember, for the objects that are still private to this execution, what every family looked like before
	rec := havocRec{prevEpoch: s.epoch, prevVer: map[string]string{}}
	for p := range s.private {
		rec.private = append(rec.private, p)
	}
	sort.Strings(rec.private)
	rec.stable = e.stableLocs
	for fam, v := range s.ver {
		if !isGhostFam(fam) {
			rec.prevVer[fam] = v
		}
	}
	e.fresh++
	prevEpoch := s.epoch
	s.epoch = e.fresh
	e.havocRecs[s.epoch] = rec
	for fam := range s.ver {
		if !isGhostFam(fam) && !e.stableFam(fam) {
			delete(s.ver, fam)
		}
	}
	// families of stable types keep their current version (pin the previous epoch's base symbol if never written)
	for fam, sig := range e.fams {
		if e.stableFam(fam) {
			if _, ok := s.ver[fam]; !ok {
				tmp := newState()
				tmp.epoch = prevEpoch
				s.ver[fam] = e.cur(tmp, fam, sig.Args, sig.Res)
			}
		}
	}
	e.pinEpoch = prevEpoch
	for fam := range e.fams {
		if !isGhostFam(fam) {
			e.written[fam] = true
		}
	}
	e.havocAllUsed = true
	after := e.hhavoc(s, "$alloc", []string{"Ref"}, "Bool")
	e.epochAlloc[s.epoch] = after
	s.assume("%s", e.growAxiom(before, after))
}

func (e *Exec) growAxiom(before, after string) string {
	pats := fmt.Sprintf(":pattern ((%s r))", after)
	if !e.macros[before] {
		pats += fmt.Sprintf(" :pattern ((%s r))", before)
	}
	return fmt.Sprintf("(forall ((r Ref)) (! (=> (%s r) (%s r)) %s))", before, after, pats)
}

func (e *Exec) allocGrow(s *State) {
	before := e.cur(s, "$alloc", []string{"Ref"}, "Bool")
	after := e.hhavoc(s, "$alloc", []string{"Ref"}, "Bool")
	s.assume("%s", e.growAxiom(before, after))
}

func (e *Exec) isAlloc(s *State, r string) string {
	return fmt.Sprintf("(%s %s)", e.cur(s, "$alloc", []string{"Ref"}, "Bool"), r)
}

// Boogie-style allocation: a fresh reference is one that was NOT allocated in the current state.
func (e *Exec) freshRef(s *State, hint string) string {
	n := "|" + e.freshName(hint) + "|"
	e.decl(fmt.Sprintf("(declare-const %s Ref)", n))
	s.assume("(not (= %s null))", n)
	s.assume("(not %s)", e.isAlloc(s, n))
	e.hwrite(s, "$alloc", []string{"Ref"}, "Bool", []string{n}, "true")
	if s.private == nil {
		s.private = map[string]bool{}
	}
	s.private[n] = true
	return n
}

// escape: the references occurring in v may from now on be reached by other code
func (e *Exec) escape(s *State, v Val) {
	if len(s.private) == 0 || v == nil {
		return
	}
	var walk func(v Val)
	walk = func(v Val) {
		switch x := v.(type) {
		case Scalar:
			for p := range s.private {
				if strings.Contains(x.T, p) {
					delete(s.private, p)
				}
			}
		case *Agg:
			for _, f := range x.F {
				walk(f)
			}
		case Tuple:
			for _, f := range x.E {
				walk(f)
			}
		case SliceV:
			walk(Scalar{x.Arr})
		case ArrPtr:
			walk(Scalar{x.Arr})
		case HeapAddr:
			walk(Scalar{x.Ref})
		case ElemAddr:
			walk(Scalar{x.Arr})
		case ClosureV:
			for _, b := range x.Bindings {
				walk(b)
			}
		}
	}
	walk(v)
}

// ---------- maps ----------

func mapFam(mt *types.Map) (has, val string, ks string) {
	k := sanitize(mt.String())
	return "has_" + k, "val_" + k, sortOf(mt.Key())
}

func (e *Exec) keyTerm(mt *types.Map, k Val) string {
	if sc, ok := k.(Scalar); ok {
		return sc.T
	}
	// composite key: injective constructor over the leaves
	terms, sorts := e.leaves(mt.Key(), k)
	ks := sortOf(mt.Key())
	e.declSort(ks)
	ctor := "|mk_" + ks + "|"
	e.decl(fmt.Sprintf("(declare-fun %s (%s) %s)", ctor, strings.Join(sorts, " "), ks))
	return app(ctor, terms...)
}

func (e *Exec) mapHas(s *State, mt *types.Map, ref, key string) string {
	h, _, ks := mapFam(mt)
	return fmt.Sprintf("(%s %s %s)", e.cur(s, h, []string{"Ref", ks}, "Bool"), ref, key)
}

// raw stored value (meaningful only where has)
func (e *Exec) mapVal(s *State, mt *types.Map, ref, key string) Val {
	_, v, ks := mapFam(mt)
	return e.assemble(mt.Elem(), v, func(p, so string) string {
		return e.read(s, p, []string{"Ref", ks}, so, ref, key)
	})
}

// read a heap location; in spec evaluation, reference-valued reads report the heap invariant
// "stored references are null or were allocated when this version of the family was created"
func (e *Exec) read(s *State, fam string, args []string, so string, at ...string) string {
	sym := e.cur(s, fam, args, so)
	term := app(sym, at...)
	if so == "Int" && strings.HasSuffix(fam, ".len") && e.specHook != nil {
		e.specHook(term, "len", "")
	}
	if so == "Ref" {
		// heap invariant, relative to the state in which this version of the family was created ("birth"): a location
		// whose CONTAINER object existed then holds null or an object that existed then. (Locations of objects allocated
		// later — e.g. the fresh result array of a callee — are only described by what the callee's contract says.)
		container := ""
		if len(args) > 0 && args[0] == "Ref" {
			container = at[0]
		}
		if e.specHook != nil {
			e.specHook(term, sym, container)
		} else if e.quietLoads == 0 {
			if birth, ok := e.famBirth[sym]; ok {
				if container != "" {
					s.assume("(=> (%s %s) (or (= %s null) (%s %s)))", birth, container, term, birth, term)
				} else {
					s.assume("(or (= %s null) (%s %s))", term, birth, term)
				}
			}
		}
	}
	return term
}

// value or zero
func (e *Exec) mapGet(s *State, mt *types.Map, ref, key string) Val {
	has := e.mapHas(s, mt, ref, key)
	return e.iteVal(mt.Elem(), has, e.mapVal(s, mt, ref, key), zero(mt.Elem()))
}

func (e *Exec) mapLen(s *State, mt *types.Map, ref string) string {
	return fmt.Sprintf("(%s %s)", e.cur(s, "len_"+sanitize(mt.String()), []string{"Ref"}, "Int"), ref)
}

func (e *Exec) mapLenFacts(s *State, mt *types.Map, ref string) {
	_, _, ks := mapFam(mt)
	l := e.mapLen(s, mt, ref)
	s.assume("(>= %s 0)", l)
	s.assume("(= (= %s 0) (forall ((q %s)) (not %s)))", l, ks, e.mapHas(s, mt, ref, "q"))
	s.assume("(=> (= %s null) (= %s 0))", ref, l)
}

func (e *Exec) mapStore(s *State, mt *types.Map, ref, key string, v Val) {
	hf, vf, ks := mapFam(mt)
	lf := "len_" + sanitize(mt.String())
	has := e.mapHas(s, mt, ref, key)
	l := e.mapLen(s, mt, ref)
	e.hwrite(s, lf, []string{"Ref"}, "Int", []string{ref}, fmt.Sprintf("(ite %s %s (+ %s 1))", has, l, l))
	e.hwrite(s, hf, []string{"Ref", ks}, "Bool", []string{ref, key}, "true")
	e.disassemble(mt.Elem(), vf, v, func(p, so, term string) {
		e.hwrite(s, p, []string{"Ref", ks}, so, []string{ref, key}, term)
	})
}

func (e *Exec) mapDelete(s *State, mt *types.Map, ref, key string) {
	hf, _, ks := mapFam(mt)
	lf := "len_" + sanitize(mt.String())
	has := e.mapHas(s, mt, ref, key)
	l := e.mapLen(s, mt, ref)
	e.hwrite(s, lf, []string{"Ref"}, "Int", []string{ref}, fmt.Sprintf("(ite %s (- %s 1) %s)", has, l, l))
	e.hwrite(s, hf, []string{"Ref", ks}, "Bool", []string{ref, key}, "false")
}

func (e *Exec) mapFamilies(mt *types.Map) (fams []string, sigs []famSig) {
	hf, vf, ks := mapFam(mt)
	fams = append(fams, hf)
	sigs = append(sigs, famSig{[]string{"Ref", ks}, "Bool"})
	e.disassemble(mt.Elem(), vf, e.symbolicQuiet(mt.Elem()), func(p, so, _ string) {
		fams = append(fams, p)
		sigs = append(sigs, famSig{[]string{"Ref", ks}, so})
	})
	fams = append(fams, "len_"+sanitize(mt.String()))
	sigs = append(sigs, famSig{[]string{"Ref"}, "Int"})
	return
}

// ite over structured values
func (e *Exec) iteVal(t types.Type, c string, a, b Val) Val {
	at, _ := e.leaves(t, a)
	bt, _ := e.leaves(t, b)
	i := 0
	return e.assemble(t, "", func(_, _ string) string {
		r := fmt.Sprintf("(ite %s %s %s)", c, at[i], bt[i])
		if at[i] == bt[i] {
			r = at[i]
		}
		i++
		return r
	})
}

func (e *Exec) eqVal(t types.Type, a, b Val) string {
	at, _ := e.leaves(t, a)
	bt, _ := e.leaves(t, b)
	if _, ok := t.Underlying().(*types.Slice); ok && (at[0] == "null" || bt[0] == "null") {
		// Go: slices are comparable to nil only; in specs, == between two slices is header equality
		return fmt.Sprintf("(= %s %s)", at[0], bt[0])
	}
	var cs []string
	for i := range at {
		cs = append(cs, fmt.Sprintf("(= %s %s)", at[i], bt[i]))
	}
	if len(cs) == 0 {
		return "true"
	}
	if len(cs) == 1 {
		return cs[0]
	}
	return "(and " + strings.Join(cs, " ") + ")"
}

// struct field families of a named struct type
func structFam(st types.Type, fld string) string {
	name := sanitize(st.String()) + "." + fld
	// a field whose type mentions a type parameter has different sorts in the generic body and at its instantiations
	if u, ok := st.Underlying().(*types.Struct); ok {
		for i := 0; i < u.NumFields(); i++ {
			if u.Field(i).Name() == fld {
				if so := sortOf(u.Field(i).Type()); strings.HasPrefix(so, "TP_") {
					return name + "#" + so
				}
			}
		}
	}
	if nt, ok := st.(*types.Named); ok && nt.TypeArgs().Len() > 0 {
		// an instantiation: if the ORIGIN's field has a type-parameter type, keep this view apart from the generic one
		if ou, ok := nt.Origin().Underlying().(*types.Struct); ok {
			for i := 0; i < ou.NumFields(); i++ {
				if ou.Field(i).Name() == fld {
					if _, isTP := ou.Field(i).Type().(*types.TypeParam); isTP {
						if u, ok := st.Underlying().(*types.Struct); ok && i < u.NumFields() {
							return name + "#" + sortOf(u.Field(i).Type())
						}
					}
				}
			}
		}
	}
	return name
}

func pointeeKey(t types.Type) string {
	if _, ok := t.Underlying().(*types.Struct); ok {
		return sanitize(t.String())
	}
	return "ptr_" + sanitize(t.String())
}

func sortedKeys[V any](m map[string]V) []string {
	var ks []string
	for k := range m {
		ks = append(ks, k)
	}
	sort.Strings(ks)
	return ks
}

func typeIDStr(k string) int {
	h := fnv.New32a()
	h.Write([]byte(k))
	return int(h.Sum32()%1000000007) + 1
}
