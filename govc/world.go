// world.go: loading /repo (go/packages + go/ssa), the function index.
package main

import (
	"fmt"
	"go/token"
	"go/types"
	"os"
	"os/exec"
	"path/filepath"
	"strings"

	"golang.org/x/tools/go/packages"
	"golang.org/x/tools/go/ssa"
	"golang.org/x/tools/go/ssa/ssautil"
)

type tableInfo struct {
	Name    string
	RowType string
	Pkg     *types.Package
}

type World struct {
	fset          *token.FileSet
	prog          *ssa.Program
	byPath        map[string]*packages.Package
	byName        map[string][]*packages.Package
	contracts     map[string]*Contract
	specFuncs     map[string]*SpecFunc
	ghosts        map[string]*GhostVar
	axioms        []Axiom
	lemmas        []*Lemma
	tables        map[string]tableInfo
	typeNames     map[int]types.Type
	overlay       map[string][]byte
	contractFiles []string
	immutables    []Immutable
	closed        []*ClosedIface
	missing       []string
	vacuity       bool
	repo          string
}

// toolchain: /repo needs go >= 1.25; it lives in the module cache. Resolve it explicitly.
func goEnv() []string {
	env := os.Environ()
	var out []string
	for _, kv := range env {
		if strings.HasPrefix(kv, "GOFLAGS=") || strings.HasPrefix(kv, "GOPROXY=") || strings.HasPrefix(kv, "GOTOOLCHAIN=") || strings.HasPrefix(kv, "GOSUMDB=") || strings.HasPrefix(kv, "PATH=") {
			continue
		}
		out = append(out, kv)
	}
	path := os.Getenv("PATH")
	if m, _ := filepath.Glob("/root/go/pkg/mod/golang.org/toolchain@v0.0.1-go1.25.0.linux-amd64/bin"); len(m) > 0 {
		path = m[0] + ":" + path
		os.Setenv("PATH", path) // exec.LookPath consults the process environment
		out = append(out, "GOTOOLCHAIN=local")
	}
	out = append(out, "PATH="+path, "GOFLAGS=-mod=mod", "GOPROXY=off")
	return out
}

func loadWorld(repo string, patterns []string, overlay map[string][]byte) (*World, error) {
	w := &World{byPath: map[string]*packages.Package{}, byName: map[string][]*packages.Package{}, contracts: map[string]*Contract{}, specFuncs: map[string]*SpecFunc{},
		ghosts: map[string]*GhostVar{}, tables: map[string]tableInfo{}, typeNames: map[int]types.Type{}, overlay: overlay, repo: repo, vacuity: true}
	w.fset = token.NewFileSet()
	cfg := &packages.Config{Mode: packages.LoadAllSyntax, Dir: repo, Fset: w.fset, Env: goEnv(), BuildFlags: []string{"-tags=verif"}, Overlay: overlay}
	pkgs, err := packages.Load(cfg, patterns...)
	if err != nil {
		return nil, err
	}
	nerr := 0
	packages.Visit(pkgs, nil, func(p *packages.Package) {
		for _, e := range p.Errors {
			if strings.HasPrefix(p.PkgPath, "github.com/yorkie-team/yorkie") {
				fmt.Fprintf(os.Stderr, "load error: %s: %v\n", p.PkgPath, e)
				nerr++
			}
		}
		w.byPath[p.PkgPath] = p
		w.byName[p.Name] = append(w.byName[p.Name], p)
	})
	if nerr > 0 {
		return nil, fmt.Errorf("%d package load errors", nerr)
	}
	prog, _ := ssautil.AllPackages(pkgs, ssa.NaiveForm)
	w.prog = prog
	for _, sp := range prog.AllPackages() {
		if strings.HasPrefix(sp.Pkg.Path(), "github.com/yorkie-team/yorkie") {
			sp.Build()
		}
	}
	return w, nil
}

func whichOr(name, def string) string {
	if p, err := exec.LookPath(name); err == nil {
		return p
	}
	return def
}
