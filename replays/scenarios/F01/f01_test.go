package document_test

import (
	"fmt"
	"testing"

	"github.com/yorkie-team/yorkie/pkg/document"
	"github.com/yorkie-team/yorkie/pkg/document/change"
	"github.com/yorkie-team/yorkie/pkg/document/json"
	"github.com/yorkie-team/yorkie/pkg/document/presence"
	"github.com/yorkie-team/yorkie/pkg/document/time"
)

// Replay of finding F1 (C06): Document.Update stores ctx.NextID() as the document's change id; that ID shares its
// version-vector MAP with the change just appended to the local changes. SyncClocks / SetClocks update the document's
// vector in place, so remote changes applied before the local change is sent rewrite the clock the unsent change carries:
// it then claims to have seen changes made after it.
// Obligation: (*pkg/document.Document).Update/ensures#@unsent_change_clock_not_aliased
func TestVerifReplayF01(t *testing.T) {
	a1, _ := time.ActorIDFromHex("000000000000000000000001")
	a2, _ := time.ActorIDFromHex("000000000000000000000002")
	d1 := document.New("k")
	d1.SetActor(a1)
	d2 := document.New("k")
	d2.SetActor(a2)
	_ = d2.Update(func(r *json.Object, p *presence.Presence) error { r.SetString("x", "1"); return nil })
	_ = d2.Update(func(r *json.Object, p *presence.Presence) error { r.SetString("y", "1"); return nil })
	_ = d2.Update(func(r *json.Object, p *presence.Presence) error { r.SetString("z", "1"); return nil })
	p2 := d2.CreateChangePack()
	for i, c := range p2.Changes {
		c.SetServerSeq(int64(i + 1))
	}
	_ = d1.Update(func(r *json.Object, p *presence.Presence) error { r.SetString("a", "1"); return nil })
	c := d1.CreateChangePack().Changes[0]
	before := c.ID().VersionVector().Marshal()
	fmt.Println("before: lamport", c.ID().Lamport(), "vv", before)
	// remote pack arrives that does not ack c (clientSeq 0)
	err := d1.ApplyChangePack(change.NewPack("k", change.NewCheckpoint(3, 0), p2.Changes, nil, nil))
	fmt.Println(err)
	c = d1.CreateChangePack().Changes[0]
	after := c.ID().VersionVector().Marshal()
	fmt.Println("after : lamport", c.ID().Lamport(), "vv", after)
	if before != after {
		t.Fatalf("F1: the version vector of an unsent local change was rewritten by applying remote changes: %s -> %s", before, after)
	}
}
