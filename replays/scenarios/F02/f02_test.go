package document_test

import (
	"fmt"
	"testing"

	"github.com/yorkie-team/yorkie/api/converter"
	api "github.com/yorkie-team/yorkie/api/yorkie/v1"
	"github.com/yorkie-team/yorkie/pkg/document"
	"google.golang.org/protobuf/proto"
)

// Replay of finding F2 (C09): fromTimeTicket(nil) yields (nil, nil), so an operation whose mandatory tickets are
// missing on the wire decodes without error and panics (nil *time.Ticket) when it is executed - on the server in
// ApplyChangePack of pullSnapshot / BuildInternalDocForServerSeq / the background snapshot task.
// Obligations: api/converter.fromSet/ensures (mandatory tickets non-nil) and its siblings.
var panics []string

func try(name string, op *api.Operation) {
	defer func() {
		if r := recover(); r != nil {
			panics = append(panics, fmt.Sprint(name, ": ", r))
		}
	}()
	actor := []byte{0, 0, 0, 0, 0, 0, 0, 0, 0, 0, 0, 1}
	pb := &api.ChangePack{
		DocumentKey: "k",
		Checkpoint:  &api.Checkpoint{ServerSeq: 1, ClientSeq: 1},
		Changes: []*api.Change{{
			Id:         &api.ChangeID{ClientSeq: 1, ServerSeq: 1, Lamport: 1, ActorId: actor},
			Operations: []*api.Operation{op},
		}},
	}
	bytes, _ := proto.Marshal(pb)
	pb2 := &api.ChangePack{}
	if err := proto.Unmarshal(bytes, pb2); err != nil {
		fmt.Println(name, "unmarshal err", err)
		return
	}
	pack, err := converter.FromChangePack(pb2)
	if err != nil {
		fmt.Println(name, "decode err:", err)
		return
	}
	d := document.NewInternalDocument("k")
	err = d.ApplyChangePack(pack, false)
	fmt.Println(name, "apply err:", err)
}

func try2(name string, ops ...*api.Operation) {
	defer func() {
		if r := recover(); r != nil {
			panics = append(panics, fmt.Sprint(name, ": ", r))
		}
	}()
	actor := []byte{0, 0, 0, 0, 0, 0, 0, 0, 0, 0, 0, 1}
	pb := &api.ChangePack{
		DocumentKey: "k",
		Checkpoint:  &api.Checkpoint{ServerSeq: 1, ClientSeq: 1},
		Changes: []*api.Change{{
			Id:         &api.ChangeID{ClientSeq: 1, ServerSeq: 1, Lamport: 1, ActorId: actor},
			Operations: ops,
		}},
	}
	pack, err := converter.FromChangePack(pb)
	if err != nil {
		fmt.Println(name, "decode err:", err)
		return
	}
	d := document.NewInternalDocument("k")
	err = d.ApplyChangePack(pack, false)
	fmt.Println(name, "apply err:", err)
}

func TestVerifReplayF02(t *testing.T) {
	actor := []byte{0, 0, 0, 0, 0, 0, 0, 0, 0, 0, 0, 1}
	tk := &api.TimeTicket{Lamport: 1, Delimiter: 1, ActorId: actor}
	root := &api.TimeTicket{Lamport: 0, Delimiter: 0, ActorId: make([]byte, 12)}
	val := &api.JSONElementSimple{Type: api.ValueType_VALUE_TYPE_INTEGER, Value: []byte{1, 0, 0, 0}, CreatedAt: tk}
	try("set-no-parent", &api.Operation{Body: &api.Operation_Set_{Set: &api.Operation_Set{Key: "a", Value: val, ExecutedAt: tk}}})
	try("set-no-executedAt", &api.Operation{Body: &api.Operation_Set_{Set: &api.Operation_Set{ParentCreatedAt: root, Key: "a", Value: val}}})
	try("set-no-value-createdAt", &api.Operation{Body: &api.Operation_Set_{Set: &api.Operation_Set{ParentCreatedAt: root, Key: "a", Value: &api.JSONElementSimple{Type: api.ValueType_VALUE_TYPE_INTEGER, Value: []byte{1, 0, 0, 0}}, ExecutedAt: tk}}})
	try("remove-no-createdAt", &api.Operation{Body: &api.Operation_Remove_{Remove: &api.Operation_Remove{ParentCreatedAt: root, ExecutedAt: tk}}})
	arr := &api.JSONElementSimple{Type: api.ValueType_VALUE_TYPE_JSON_ARRAY, CreatedAt: tk}
	tk2 := &api.TimeTicket{Lamport: 2, Delimiter: 1, ActorId: actor}
	tk3 := &api.TimeTicket{Lamport: 3, Delimiter: 1, ActorId: actor}
	val2 := &api.JSONElementSimple{Type: api.ValueType_VALUE_TYPE_INTEGER, Value: []byte{1, 0, 0, 0}, CreatedAt: tk2}
	mkArr := &api.Operation{Body: &api.Operation_Set_{Set: &api.Operation_Set{ParentCreatedAt: root, Key: "arr", Value: arr, ExecutedAt: tk}}}
	try2("add-no-prev", mkArr, &api.Operation{Body: &api.Operation_Add_{Add: &api.Operation_Add{ParentCreatedAt: tk, Value: val2, ExecutedAt: tk2}}})
	try2("add-no-parent", mkArr, &api.Operation{Body: &api.Operation_Add_{Add: &api.Operation_Add{PrevCreatedAt: tk, Value: val2, ExecutedAt: tk2}}})
	try2("move-no-created", mkArr, &api.Operation{Body: &api.Operation_Move_{Move: &api.Operation_Move{ParentCreatedAt: tk, PrevCreatedAt: tk, ExecutedAt: tk3}}})
	try2("move-no-prev", mkArr, &api.Operation{Body: &api.Operation_Move_{Move: &api.Operation_Move{ParentCreatedAt: tk, CreatedAt: tk, ExecutedAt: tk3}}})
	try2("arrayset-no-created", mkArr, &api.Operation{Body: &api.Operation_ArraySet_{ArraySet: &api.Operation_ArraySet{ParentCreatedAt: tk, Value: val2, ExecutedAt: tk3}}})
	try2("increase-no-parent", mkArr, &api.Operation{Body: &api.Operation_Increase_{Increase: &api.Operation_Increase{Value: val2, ExecutedAt: tk3}}})
	try2("remove-no-executedAt", mkArr, &api.Operation{Body: &api.Operation_Remove_{Remove: &api.Operation_Remove{ParentCreatedAt: root, CreatedAt: tk}}})
	try2("add-no-executedAt", mkArr, &api.Operation{Body: &api.Operation_Add_{Add: &api.Operation_Add{ParentCreatedAt: tk, PrevCreatedAt: tk, Value: val2}}})
	try("empty-set", &api.Operation{Body: &api.Operation_Set_{Set: &api.Operation_Set{}}})
	if len(panics) > 0 {
		t.Fatalf("F2: %d hostile operations decoded without error and crashed the applier: %v", len(panics), panics)
	}
}
