package server_test

import (
	"context"
	"fmt"
	"testing"
	gotime "time"

	"github.com/yorkie-team/yorkie/api/types"
	"github.com/yorkie-team/yorkie/client"
	"github.com/yorkie-team/yorkie/pkg/document"
	"github.com/yorkie-team/yorkie/pkg/document/json"
	"github.com/yorkie-team/yorkie/pkg/document/presence"
	"github.com/yorkie-team/yorkie/pkg/key"
	"github.com/yorkie-team/yorkie/server"
	"github.com/yorkie-team/yorkie/server/backend/database"
	"github.com/yorkie-team/yorkie/test/helper"
)

type blockDB struct {
	database.Database
	entered chan struct{}
	release chan struct{}
	armed   bool
}

func (b *blockDB) FindLatestChangeInfoByActor(ctx context.Context, k types.DocRefKey, a types.ID, s int64) (*database.ChangeInfo, error) {
	if b.armed {
		b.armed = false
		close(b.entered)
		<-b.release
	}
	return b.Database.FindLatestChangeInfoByActor(ctx, k, a, s)
}

// Replay of finding F4 (C16): clusterServer.DetachDocument took doc.pull (level 2) before doc (level 1). With an SDK
// PushPull of the same client (doc -> doc.pull) and a compaction queued for the write side of doc, all three wait
// for each other. Obligation: (*server/rpc.clusterServer).DetachDocument/requires@call#LockerWithRLock (canAcquire).
func TestVerifReplayF04(t *testing.T) {
	ctx := context.Background()
	conf := helper.TestConfig()
	conf.Mongo = nil
	y, err := server.New(conf)
	if err != nil {
		t.Fatal(err)
	}
	if err := y.Start(); err != nil {
		t.Fatal(err)
	}
	project, _ := y.DefaultProject(ctx)
	be := y.Backend()
	c1, _ := client.Dial(y.RPCAddr(), client.WithAPIKey(project.PublicKey))
	_ = c1.Activate(ctx)
	k := key.Key("probe-deadlock")
	d1 := document.New(k)
	fmt.Println("attach", c1.Attach(ctx, d1))
	_ = d1.Update(func(r *json.Object, p *presence.Presence) error { r.SetString("a", "1"); return nil })
	fmt.Println("sync", c1.Sync(ctx))

	bdb := &blockDB{Database: be.DB, entered: make(chan struct{}), release: make(chan struct{}), armed: true}
	be.DB = bdb

	done := make(chan string, 3)
	// B: server-side deactivation of c1 -> cluster DetachDocument: Lock(doc.pull) ... [blocked in DB] ... RLock(doc)
	go func() { err := y.DeactivateClient(ctx, c1); done <- fmt.Sprint("B deactivate: ", err) }()
	<-bdb.entered // B now holds doc.pull
	// A: SDK PushPull of the same client/doc: RLock(doc) then Lock(doc.pull) -> waits for B
	_ = d1.Update(func(r *json.Object, p *presence.Presence) error { r.SetString("b", "2"); return nil })
	go func() { err := c1.Sync(ctx); done <- fmt.Sprint("A sync: ", err) }()
	gotime.Sleep(300 * gotime.Millisecond)
	// C: compaction wants the WRITE side of doc -> waits for A's read lock
	go func() { err := y.CompactDocument(ctx, k, true); done <- fmt.Sprint("C compact: ", err) }()
	gotime.Sleep(300 * gotime.Millisecond)
	close(bdb.release) // B continues: RLock(doc) behind the queued writer
	finished := 0
	timeout := gotime.After(5 * gotime.Second)
loop:
	for finished < 3 {
		select {
		case m := <-done:
			fmt.Println("finished:", m)
			finished++
		case <-timeout:
			break loop
		}
	}
	if finished < 3 {
		t.Fatalf("F4: only %d of 3 requests finished within 5s (cluster detach / SDK sync / compaction wait for each other)", finished)
	}
}
