package document_test

import (
	"fmt"
	"testing"

	"github.com/yorkie-team/yorkie/pkg/document"
	"github.com/yorkie-team/yorkie/pkg/document/change"
	"github.com/yorkie-team/yorkie/pkg/document/json"
	"github.com/yorkie-team/yorkie/pkg/document/presence"
	"github.com/yorkie-team/yorkie/pkg/document/time"
)

// tiny in-test "server": total order log, per-client checkpoint, minVV over last reported vectors.
type srv struct {
	log []*change.Change
	vv  map[string]time.VersionVector
	cp  map[string]int
}

func (s *srv) sync(name string, d *document.Document) error {
	pack := d.CreateChangePack()
	for _, c := range pack.Changes {
		c.SetServerSeq(int64(len(s.log) + 1))
		s.log = append(s.log, c)
	}
	s.vv[name] = pack.VersionVector.DeepCopy()
	var pulled []*change.Change
	for _, c := range s.log[s.cp[name]:] {
		if c.ID().ActorID() != d.ActorID() {
			pulled = append(pulled, c)
		}
	}
	s.cp[name] = len(s.log)
	var vs []time.VersionVector
	for _, v := range s.vv {
		vs = append(vs, v)
	}
	min := time.MinVersionVector(vs...)
	return d.ApplyChangePack(change.NewPack("k", change.NewCheckpoint(int64(len(s.log)), pack.Checkpoint.ClientSeq), pulled, min, nil))
}

// Replay of finding F6 (C03): an append to an array is anchored on RGATreeList.LastCreatedAt(), the LAST node of the
// list - also when that node is a tombstone. A peer that has already garbage-collected the tombstone (the minimum version
// vector allowed it) cannot resolve the anchor: the change fails to apply on it, for good.
// Obligation: (*pkg/document/crdt.RGATreeList).LastCreatedAt/ensures#@anchor_is_not_purgeable
func TestVerifReplayF06(t *testing.T) {
	a1, _ := time.ActorIDFromHex("000000000000000000000001")
	a2, _ := time.ActorIDFromHex("000000000000000000000002")
	d1 := document.New("k")
	d1.SetActor(a1)
	d2 := document.New("k")
	d2.SetActor(a2)
	s := &srv{vv: map[string]time.VersionVector{}, cp: map[string]int{}}
	up := func(d *document.Document, f func(r *json.Object)) {
		if err := d.Update(func(r *json.Object, p *presence.Presence) error { f(r); return nil }); err != nil {
			panic(err)
		}
	}
	up(d1, func(r *json.Object) { r.SetNewArray("a").AddInteger(1) })
	fmt.Println(s.sync("c1", d1), s.sync("c2", d2))
	up(d1, func(r *json.Object) { r.GetArray("a").Delete(0) })
	fmt.Println("c1 sync", s.sync("c1", d1))
	fmt.Println("c2 sync", s.sync("c2", d2))
	fmt.Println("c2 sync", s.sync("c2", d2), "garbage c2:", d2.GarbageLen(), "garbage c1:", d1.GarbageLen())
	up(d1, func(r *json.Object) { r.GetArray("a").AddInteger(2) })
	fmt.Println("c1 sync", s.sync("c1", d1))
	err := s.sync("c2", d2)
	fmt.Println("c2 sync", err)
	fmt.Println(d1.Marshal(), d2.Marshal())
	if err != nil || d1.Marshal() != d2.Marshal() {
		t.Fatalf("F6: after garbage collection on the peer, the append made on c1 does not apply on c2: err=%v c1=%s c2=%s", err, d1.Marshal(), d2.Marshal())
	}
}
