package server_test

import (
	"context"
	"fmt"
	"testing"

	"github.com/yorkie-team/yorkie/client"
	"github.com/yorkie-team/yorkie/pkg/document"
	"github.com/yorkie-team/yorkie/pkg/document/json"
	"github.com/yorkie-team/yorkie/pkg/document/presence"
	"github.com/yorkie-team/yorkie/pkg/key"
	"github.com/yorkie-team/yorkie/server"
	"github.com/yorkie-team/yorkie/server/documents"
	"github.com/yorkie-team/yorkie/test/helper"
)

// Replay of finding F7 (C11): nothing on the push path looks at DocInfo.RemovedAt, so a client that still has the document
// attached when another client removes it can keep pushing: its changes are numbered and stored in the log of the removed
// document ("a removed document stays removed for everyone ... and stores no further change").
// Obligation: server/packs.pushPack/ensures#@removed_doc_stores_nothing
func TestVerifReplayF07(t *testing.T) {
	ctx := context.Background()
	conf := helper.TestConfig()
	conf.Mongo = nil
	y, err := server.New(conf)
	if err != nil {
		t.Fatal(err)
	}
	if err := y.Start(); err != nil {
		t.Fatal(err)
	}
	defer func() { _ = y.Shutdown(true) }()
	project, _ := y.DefaultProject(ctx)
	be := y.Backend()
	mk := func() *client.Client {
		c, err := client.Dial(y.RPCAddr(), client.WithAPIKey(project.PublicKey))
		if err != nil {
			t.Fatal(err)
		}
		if err := c.Activate(ctx); err != nil {
			t.Fatal(err)
		}
		return c
	}
	c1, c2 := mk(), mk()
	k := key.Key("probe-removed-push")
	d1, d2 := document.New(k), document.New(k)
	fmt.Println("attach", c1.Attach(ctx, d1), c2.Attach(ctx, d2))
	_ = d1.Update(func(r *json.Object, p *presence.Presence) error { r.SetString("a", "1"); return nil })
	fmt.Println("sync", c1.Sync(ctx), c2.Sync(ctx))
	docInfo, _ := documents.FindDocInfoByKey(ctx, be, project, k)
	fmt.Println("head before remove", docInfo.ServerSeq)
	fmt.Println("remove by c1:", c1.Remove(ctx, d1))
	after, _ := be.DB.FindDocInfoByRefKey(ctx, docInfo.RefKey())
	fmt.Println("removed?", after.IsRemoved(), "head", after.ServerSeq)
	_ = d2.Update(func(r *json.Object, p *presence.Presence) error { r.SetString("b", "2"); return nil })
	fmt.Println("c2 sync after removal:", c2.Sync(ctx), "status", d2.Status())
	after2, _ := be.DB.FindDocInfoByRefKey(ctx, docInfo.RefKey())
	rows, _ := be.DB.FindChangeInfosBetweenServerSeqs(ctx, docInfo.RefKey(), 1, 1000)
	fmt.Println("head after c2 push", after2.ServerSeq, "rows", len(rows))
	if after2.ServerSeq != after.ServerSeq {
		t.Fatalf("F7: the log of the removed document grew from %d to %d after the removal", after.ServerSeq, after2.ServerSeq)
	}
}
