package document_test

import (
	"fmt"
	"testing"

	"github.com/yorkie-team/yorkie/api/converter"
	"github.com/yorkie-team/yorkie/pkg/document"
	"github.com/yorkie-team/yorkie/pkg/document/change"
	"github.com/yorkie-team/yorkie/pkg/document/json"
	"github.com/yorkie-team/yorkie/pkg/document/presence"
	"github.com/yorkie-team/yorkie/pkg/document/time"
)

type srv2 struct {
	log []*change.Change
	vv  map[string]time.VersionVector
	cp  map[string]int
	doc *document.InternalDocument // server-side replica (like BuildInternalDocForServerSeq)
}

func (s *srv2) sync(name string, d *document.Document) error {
	pack := d.CreateChangePack()
	for _, c := range pack.Changes {
		c.SetServerSeq(int64(len(s.log) + 1))
		s.log = append(s.log, c)
	}
	if err := s.doc.ApplyChangePack(change.NewPack("k", change.NewCheckpoint(int64(len(s.log)), 0), pack.Changes, nil, nil), true); err != nil {
		return fmt.Errorf("server apply: %w", err)
	}
	s.vv[name] = pack.VersionVector.DeepCopy()
	var pulled []*change.Change
	for _, c := range s.log[s.cp[name]:] {
		if c.ID().ActorID() != d.ActorID() {
			pulled = append(pulled, c)
		}
	}
	s.cp[name] = len(s.log)
	var vs []time.VersionVector
	for _, v := range s.vv {
		vs = append(vs, v)
	}
	min := time.MinVersionVector(vs...)
	return d.ApplyChangePack(change.NewPack("k", change.NewCheckpoint(int64(len(s.log)), pack.Checkpoint.ClientSeq), pulled, min, nil))
}

// Replay of finding F8 (C01/C02): ElementRHT.SetWithExecutedAt leaves a value that LOSES the last-writer-wins conflict
// against an already-removed occupant live and unlinked; after the occupant's tombstone is purged, a snapshot built from
// the node index brings the loser back, so a client that catches up by snapshot sees a key the replaying clients do not.
// Obligation: (*pkg/document/crdt.ElementRHT).SetWithExecutedAt/ensures#@loser_vs_tombstoned_occupant_is_tombstoned
func TestVerifReplayF08(t *testing.T) {
	a1, _ := time.ActorIDFromHex("000000000000000000000001")
	a2, _ := time.ActorIDFromHex("000000000000000000000002")
	d1 := document.New("k")
	d1.SetActor(a1)
	d2 := document.New("k")
	d2.SetActor(a2)
	s := &srv2{vv: map[string]time.VersionVector{}, cp: map[string]int{}, doc: document.NewInternalDocument("k")}
	up := func(d *document.Document, f func(r *json.Object)) {
		if err := d.Update(func(r *json.Object, p *presence.Presence) error { f(r); return nil }); err != nil {
			panic(err)
		}
	}
	// B (d2) sets k with a LOW ticket while offline; A (d1) sets k twice then deletes (higher lamport).
	up(d2, func(r *json.Object) { r.SetString("k", "B") })           // lamport 1 actor 2
	up(d1, func(r *json.Object) { r.SetString("x", "pad") })         // lamport 1
	up(d1, func(r *json.Object) { r.SetString("k", "A") })           // lamport 2
	up(d1, func(r *json.Object) { r.Delete("k") })                   // lamport 3
	fmt.Println("c1 sync", s.sync("c1", d1)) // server order: A's set, A's delete ...
	fmt.Println("c2 sync", s.sync("c2", d2)) // ... then B's low-ticket set
	fmt.Println("c1 sync", s.sync("c1", d1))
	fmt.Println("c2 sync", s.sync("c2", d2))
	fmt.Println("c1 sync", s.sync("c1", d1))
	fmt.Println("d1", d1.Marshal(), "d2", d2.Marshal(), "server", s.doc.Marshal())
	// server GC with min vector, then snapshot for a late attacher
	var vs []time.VersionVector
	for _, v := range s.vv {
		vs = append(vs, v)
	}
	n, err := s.doc.GarbageCollect(time.MinVersionVector(vs...))
	fmt.Println("server gc", n, err)
	bytes, err := converter.SnapshotToBytes(s.doc.RootObject(), s.doc.AllPresences())
	obj, _, err2 := converter.BytesToSnapshot(bytes)
	if err != nil || err2 != nil {
		t.Fatal(err, err2)
	}
	if obj.Marshal() != s.doc.Marshal() {
		t.Fatalf("F8: a document fed from the snapshot shows %s, the document that replayed the changes shows %s", obj.Marshal(), s.doc.Marshal())
	}
}
