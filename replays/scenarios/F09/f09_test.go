package document_test

import (
	"fmt"
	"testing"

	"github.com/yorkie-team/yorkie/api/converter"
	"github.com/yorkie-team/yorkie/pkg/document"
	"github.com/yorkie-team/yorkie/pkg/document/json"
	"github.com/yorkie-team/yorkie/pkg/document/presence"
)

// Replay of finding F9 (C02): RGATreeList.Add (used when an array is rebuilt from a snapshot) anchors the new node on
// a.last.CreatedAt() - the ELEMENT's creation ticket - instead of the position node's own creation ticket. After a move the
// two differ, the anchor resolves to the element's OLD slot, and the rebuilt array is ordered differently from the
// document the snapshot was taken from.
// Obligation: (*pkg/document/crdt.RGATreeList).Add/assert-at (anchor is the last position node)
func TestVerifReplayF09(t *testing.T) {
	d := document.New("k")
	up := func(f func(r *json.Object)) {
		if err := d.Update(func(r *json.Object, p *presence.Presence) error { f(r); return nil }); err != nil {
			panic(err)
		}
	}
	up(func(r *json.Object) { r.SetNewArray("a").AddInteger(1, 2, 3) })
	up(func(r *json.Object) {
		arr := r.GetArray("a")
		arr.MoveAfterByIndex(2, 0) // move element 0 after index 2 -> [2,3,1]
	})
	up(func(r *json.Object) { r.GetArray("a").AddInteger(4) })
	fmt.Println("doc     :", d.Marshal())
	bytes, err := converter.SnapshotToBytes(d.RootObject(), nil)
	obj, _, err2 := converter.BytesToSnapshot(bytes)
	fmt.Println(err, err2)
	fmt.Println("snapshot:", obj.Marshal())
	up(func(r *json.Object) { r.GetArray("a").AddInteger(5) })
	fmt.Println("doc     :", d.Marshal())
	bytes, _ = converter.SnapshotToBytes(d.RootObject(), nil)
	obj, _, _ = converter.BytesToSnapshot(bytes)
	fmt.Println("snapshot:", obj.Marshal())
	if obj.Marshal() != d.Marshal() {
		t.Fatalf("F9: the document rebuilt from the snapshot shows %s, the document it was taken from shows %s", obj.Marshal(), d.Marshal())
	}
}
