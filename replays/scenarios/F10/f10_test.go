package document_test

import (
	"testing"

	"github.com/yorkie-team/yorkie/api/converter"
	"github.com/yorkie-team/yorkie/pkg/document"
	"github.com/yorkie-team/yorkie/pkg/document/json"
	"github.com/yorkie-team/yorkie/pkg/document/presence"
)

// Replay of finding F10 (C02/C09): the snapshot encoder of Text nodes (toTextNodes) writes the value and the update ticket
// of every attribute but not its removal flag, and the decoder (fromTextNode) restores attributes with RHT.Set, which marks
// them live. A style that was removed (here: by undoing the Style) is a tombstone in the document; in a document rebuilt
// from a snapshot it is back.
// Obligation: api/converter.toTextNodes/loop1/step (the removal flag of every attribute is carried)
func TestVerifReplayF10(t *testing.T) {
	d := document.New("k")
	up := func(f func(r *json.Object)) {
		if err := d.Update(func(r *json.Object, p *presence.Presence) error { f(r); return nil }); err != nil {
			panic(err)
		}
	}
	up(func(r *json.Object) { r.SetNewText("t").Edit(0, 0, "abc") })
	up(func(r *json.Object) { r.GetText("t").Style(0, 3, map[string]string{"b": "1"}) })
	if err := d.Undo(); err != nil { // removes the attribute again: the RHT keeps a tombstone
		t.Fatal(err)
	}
	bytes, err := converter.SnapshotToBytes(d.RootObject(), nil)
	if err != nil {
		t.Fatal(err)
	}
	obj, _, err := converter.BytesToSnapshot(bytes)
	if err != nil {
		t.Fatal(err)
	}
	if obj.Marshal() != d.Marshal() {
		t.Fatalf("F10: the document rebuilt from the snapshot shows %s, the document it was taken from shows %s", obj.Marshal(), d.Marshal())
	}
}
