package document_test

import (
	"testing"

	"github.com/yorkie-team/yorkie/pkg/document"
	"github.com/yorkie-team/yorkie/pkg/document/json"
	"github.com/yorkie-team/yorkie/pkg/document/presence"
)

// Replay of finding F12 (C08): Document.Update discards the clone when the callback returns an error, but not when it
// PANICS (C08 names the panic). The application recovers from the panic and goes on; the clone the callback had been
// working on keeps the part of its edits made before the panic, so Root() - and every later callback - shows content the
// authoritative document does not have, and the next successful update is built on it.
// Obligation: (*pkg/document.Document).Update/ensures-on-panic#@panicking_callback_discards_the_clone
func TestVerifReplayF12(t *testing.T) {
	d := document.New("k")
	if err := d.Update(func(r *json.Object, p *presence.Presence) error { r.SetString("a", "1"); return nil }); err != nil {
		t.Fatal(err)
	}
	func() {
		defer func() { _ = recover() }()
		_ = d.Update(func(r *json.Object, p *presence.Presence) error {
			r.SetString("b", "2")
			panic("boom")
		})
	}()
	if d.Root().Marshal() != d.Marshal() {
		t.Fatalf("F12: after a panicking update the copy handed to callbacks shows %s, the document shows %s", d.Root().Marshal(), d.Marshal())
	}
}
