package memory

// Replay of finding F14 (C16): (*memory.DB).UpdateDocInfoStatusToRemoved writes RemovedAt INTO THE STORED ROW before
// re-inserting it. go-memdb hands out the stored objects themselves, so a read transaction opened before the update
// (snapshot isolation) - or any concurrent reader copying the row - observes the write: an unsynchronised write to
// memory shared with readers. Obligation:
//   (*server/backend/database/memory.DB).UpdateDocInfoStatusToRemoved/frame#server_backend_database.DocInfo.RemovedAt.*
// Injected with `go test -overlay`; nothing is written to /repo.

import (
	"context"
	"testing"

	"github.com/yorkie-team/yorkie/pkg/key"
	"github.com/yorkie-team/yorkie/server/backend/database"
)

func TestVerifReplayF14(t *testing.T) {
	ctx := context.Background()
	db, err := New()
	if err != nil {
		t.Fatal(err)
	}
	_, proj, err := db.EnsureDefaultUserAndProject(ctx, "admin", "admin")
	if err != nil {
		t.Fatal(err)
	}
	cli, err := db.ActivateClient(ctx, proj.ID, "c1", nil)
	if err != nil {
		t.Fatal(err)
	}
	doc, err := db.FindOrCreateDocInfo(ctx, cli.RefKey(), key.Key("doc-one"), false)
	if err != nil {
		t.Fatal(err)
	}
	// a reader's snapshot taken BEFORE the removal
	rtxn := db.db.Txn(false)
	defer rtxn.Abort()
	raw, err := rtxn.First(tblDocuments, "id", doc.ID.String())
	if err != nil || raw == nil {
		t.Fatal("row not found", err)
	}
	row := raw.(*database.DocInfo)
	if !row.RemovedAt.IsZero() {
		t.Fatal("unexpected: already removed")
	}
	if err := db.UpdateDocInfoStatusToRemoved(ctx, doc.RefKey()); err != nil {
		t.Fatal(err)
	}
	// the snapshot's row object must not have been written
	if !row.RemovedAt.IsZero() {
		t.Fatalf("F14: the row object held by a read transaction opened before the update was written in place (RemovedAt=%v)", row.RemovedAt)
	}
}
