package document_test

import (
	"errors"
	"testing"

	"github.com/yorkie-team/yorkie/pkg/document"
	"github.com/yorkie-team/yorkie/pkg/document/json"
	"github.com/yorkie-team/yorkie/pkg/document/presence"
	"github.com/yorkie-team/yorkie/pkg/document/time"
)

// Replay of finding F15 (C08/C12): the copy of the presences an update works on (inner.Map.DeepCopy) shares the per-actor
// presence maps with the authoritative document, Map.LoadOrStore hands out the stored map itself and the presence proxy
// writes into it in place. An Update whose callback sets a presence key and then FAILS has therefore already changed the
// authoritative presence - with no change recorded, so no peer ever learns of it.
// Obligation: (*pkg/document.Document).Update/assert-at (the presence handed to the callback is not a map the document stores)
func TestVerifReplayF15(t *testing.T) {
	a1, _ := time.ActorIDFromHex("000000000000000000000001")
	d := document.New("k")
	d.SetActor(a1)
	if err := d.Update(func(r *json.Object, p *presence.Presence) error { p.Set("cursor", "1"); return nil }); err != nil {
		t.Fatal(err)
	}
	id := a1.String()
	before, pending := d.InternalDocument().PresenceForTest(id)["cursor"], len(d.CreateChangePack().Changes)
	// the first failure only discards the clone; from the second on the callback works on a re-created clone
	for _, v := range []string{"999", "777"} {
		v := v
		err := d.Update(func(r *json.Object, p *presence.Presence) error {
			p.Set("cursor", v)
			return errors.New("user error")
		})
		if err == nil {
			t.Fatal("the update should have failed")
		}
	}
	after := d.InternalDocument().PresenceForTest(id)["cursor"]
	if after != before || len(d.CreateChangePack().Changes) != pending {
		t.Fatalf("F15: failed updates changed the document's presence from cursor=%q to cursor=%q (pending changes %d -> %d)",
			before, after, pending, len(d.CreateChangePack().Changes))
	}
}
