package memory

// Replay of finding F17: (*memory.DB).FindLatestChangeInfoByActor walks past the (document, actor) prefix of the
// reverse index scan and returns a change of the SAME ACTOR in ANOTHER DOCUMENT when the actor has no change at or
// below the bound in the requested document. Obligation:
//   (*server/backend/database/memory.DB).FindLatestChangeInfoByActor/ensures (result0.DocID == docRefKey.DocID)
// Injected with `go test -overlay`; nothing is written to /repo.

import (
	"context"
	"testing"

	"github.com/yorkie-team/yorkie/api/types"
	"github.com/yorkie-team/yorkie/pkg/document/change"
	"github.com/yorkie-team/yorkie/pkg/key"
	"github.com/yorkie-team/yorkie/pkg/document/time"
	"github.com/yorkie-team/yorkie/server/backend/database"
)

func TestVerifReplayF17(t *testing.T) {
	ctx := context.Background()
	db, err := New()
	if err != nil {
		t.Fatal(err)
	}
	_, proj, err := db.EnsureDefaultUserAndProject(ctx, "admin", "admin")
	if err != nil {
		t.Fatal(err)
	}
	cli, err := db.ActivateClient(ctx, proj.ID, "c1", nil)
	if err != nil {
		t.Fatal(err)
	}
	d1, err := db.FindOrCreateDocInfo(ctx, cli.RefKey(), key.Key("doc-one"), false)
	if err != nil {
		t.Fatal(err)
	}
	d2, err := db.FindOrCreateDocInfo(ctx, cli.RefKey(), key.Key("doc-two"), false)
	if err != nil {
		t.Fatal(err)
	}
	// lo sorts before hi in the index; the actor writes only into lo, we ask for hi
	lo, hi := d1, d2
	if lo.ID > hi.ID {
		lo, hi = hi, lo
	}
	actor, err := time.ActorIDFromHex(cli.ID.String())
	if err != nil {
		t.Fatal(err)
	}
	id := change.NewID(1, 0, 7, actor, time.NewVersionVector())
	c := change.New(id, "m", nil, nil)
	info, err := database.NewFromChange(lo.RefKey(), c)
	if err != nil {
		t.Fatal(err)
	}
	if _, _, err := db.CreateChangeInfos(ctx, lo.RefKey(), change.InitialCheckpoint, []*database.ChangeInfo{info}, false); err != nil {
		t.Fatal(err)
	}
	got, err := db.FindLatestChangeInfoByActor(ctx, types.DocRefKey{ProjectID: proj.ID, DocID: hi.ID}, cli.ID, 100)
	if err != nil {
		t.Logf("no change found (expected for a document without changes of this actor): %v", err)
		return
	}
	if got.DocID != hi.ID {
		t.Fatalf("F17: asked for the latest change of actor %s in document %s, got a change of document %s", cli.ID, hi.ID, got.DocID)
	}
}
