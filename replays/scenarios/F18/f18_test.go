package document_test

import (
	"testing"

	"github.com/yorkie-team/yorkie/pkg/document"
	"github.com/yorkie-team/yorkie/pkg/document/json"
	"github.com/yorkie-team/yorkie/pkg/document/presence"
)

// Replay of finding F18 (C03): RGATreeList.Set anchors the replacement on nodeMapByCreatedAt[createdAt] - the element's
// ORIGINAL position node. After the element has been moved that node is a dead position, which garbage collection purges
// once the move is covered by the minimum version vector; from then on the same lookup falls back to the element's
// CURRENT position. The same Set therefore lands in different places depending on whether the dead position has been
// collected: content(GC on) != content(GC off).
// Obligation: (*pkg/document/crdt.RGATreeList).Set/assert-at (anchor is not a node garbage collection may purge)
func TestVerifReplayF18(t *testing.T) {
	run := func(gc bool) string {
		d := document.New("k")
		up := func(f func(r *json.Object)) {
			if err := d.Update(func(r *json.Object, p *presence.Presence) error { f(r); return nil }); err != nil {
				panic(err)
			}
		}
		up(func(r *json.Object) { r.SetNewArray("a").AddInteger(1, 2, 3) })
		up(func(r *json.Object) {
			arr := r.GetArray("a")
			arr.MoveFront(arr.Get(2).CreatedAt()) // [3,1,2]; the old slot of 3 stays behind as a dead position
		})
		if gc {
			// every attached client has seen the move: the minimum version vector covers it
			d.GarbageCollect(d.VersionVector())
		}
		up(func(r *json.Object) { r.GetArray("a").SetInteger(0, 9) })
		return d.Marshal()
	}
	on, off := run(true), run(false)
	if on != off {
		t.Fatalf("F18: the same history ends in %s with garbage collection and in %s without it", on, off)
	}
}
