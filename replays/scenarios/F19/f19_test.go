package document_test

import (
	"testing"

	"github.com/yorkie-team/yorkie/pkg/document"
	"github.com/yorkie-team/yorkie/pkg/document/change"
	"github.com/yorkie-team/yorkie/pkg/document/json"
	"github.com/yorkie-team/yorkie/pkg/document/presence"
	"github.com/yorkie-team/yorkie/pkg/document/time"
)

// Replay of finding F19 (C06): the undo/redo path (Document.executeUndoRedo) stores ctx.NextID() as the document's change
// id without copying it - the same aliasing as F1 (repaired in Update only): the change appended by Undo shares its
// version-vector MAP with the document's change id, and remote changes applied before the undo change is sent rewrite
// the clock it carries.
// Obligation: (*pkg/document.Document).executeUndoRedo/ensures#@unsent_undo_change_clock_not_aliased
func TestVerifReplayF19(t *testing.T) {
	a1, _ := time.ActorIDFromHex("000000000000000000000001")
	a2, _ := time.ActorIDFromHex("000000000000000000000002")
	d1 := document.New("k")
	d1.SetActor(a1)
	d2 := document.New("k")
	d2.SetActor(a2)
	for _, k := range []string{"x", "y", "z"} {
		k := k
		_ = d2.Update(func(r *json.Object, p *presence.Presence) error { r.SetString(k, "1"); return nil })
	}
	p2 := d2.CreateChangePack()
	for i, c := range p2.Changes {
		c.SetServerSeq(int64(i + 1))
	}
	_ = d1.Update(func(r *json.Object, p *presence.Presence) error { r.SetString("a", "1"); return nil })
	_ = d1.Update(func(r *json.Object, p *presence.Presence) error { r.SetString("a", "2"); return nil })
	if err := d1.Undo(); err != nil {
		t.Fatal(err)
	}
	cs := d1.CreateChangePack().Changes
	if len(cs) != 3 {
		t.Fatalf("expected the undo to append a third unsent change, have %d", len(cs))
	}
	before := cs[2].ID().VersionVector().Marshal()
	// a remote pack arrives that acknowledges none of the local changes
	if err := d1.ApplyChangePack(change.NewPack("k", change.NewCheckpoint(3, 0), p2.Changes, nil, nil)); err != nil {
		t.Fatal(err)
	}
	after := d1.CreateChangePack().Changes[2].ID().VersionVector().Marshal()
	if before != after {
		t.Fatalf("F19: the version vector of the unsent undo change was rewritten by applying remote changes: %s -> %s", before, after)
	}
}
