package server_test

import (
	"context"
	"testing"

	"github.com/yorkie-team/yorkie/api/types"
	"github.com/yorkie-team/yorkie/client"
	"github.com/yorkie-team/yorkie/pkg/document"
	"github.com/yorkie-team/yorkie/pkg/document/json"
	"github.com/yorkie-team/yorkie/pkg/document/presence"
	"github.com/yorkie-team/yorkie/pkg/key"
	"github.com/yorkie-team/yorkie/server"
	"github.com/yorkie-team/yorkie/server/backend/database"
	"github.com/yorkie-team/yorkie/server/documents"
	"github.com/yorkie-team/yorkie/test/helper"
)

// Replay of finding F20 (C11): deactivating a client detaches each of its attached documents through
// clusterServer.DetachDocument, which builds the clock of the server-made presence-clear change from the client's latest
// change row in that document (FindLatestChangeInfoByActor). A client that has stored NO change in the document - it
// attached with presence disabled and only read - has no such row: the lookup answers "change not found", the detach
// fails, Deactivate fails, and the client stays activated and attached, holding its version-vector row (so it keeps
// holding back garbage collection) for good.
// Obligation: (*server/rpc.clusterServer).DetachDocument/ensures#@reader_without_changes_is_detached
func TestVerifReplayF20(t *testing.T) {
	ctx := context.Background()
	conf := helper.TestConfig()
	conf.Mongo = nil
	y, err := server.New(conf)
	if err != nil {
		t.Fatal(err)
	}
	if err := y.Start(); err != nil {
		t.Fatal(err)
	}
	defer func() { _ = y.Shutdown(true) }()
	project, _ := y.DefaultProject(ctx)
	be := y.Backend()
	mk := func() *client.Client {
		c, err := client.Dial(y.RPCAddr(), client.WithAPIKey(project.PublicKey))
		if err != nil {
			t.Fatal(err)
		}
		if err := c.Activate(ctx); err != nil {
			t.Fatal(err)
		}
		return c
	}
	writer, reader := mk(), mk()
	k := key.Key("probe-reader-deactivate")
	dw, dr := document.New(k), document.New(k)
	if err := writer.Attach(ctx, dw); err != nil {
		t.Fatal(err)
	}
	_ = dw.Update(func(r *json.Object, p *presence.Presence) error { r.SetString("a", "1"); return nil })
	if err := writer.Sync(ctx); err != nil {
		t.Fatal(err)
	}
	// the reader attaches without presence and never edits: it stores no change in the document
	if err := reader.Attach(ctx, dr, client.WithDisablePresence()); err != nil {
		t.Fatal(err)
	}
	if err := reader.Sync(ctx); err != nil {
		t.Fatal(err)
	}
	docInfo, _ := documents.FindDocInfoByKey(ctx, be, project, k)
	derr := reader.Deactivate(ctx)
	info, err := be.DB.FindClientInfoByRefKey(ctx, types.ClientRefKey{ProjectID: project.ID, ClientID: types.ID(reader.ID().String())})
	if err != nil {
		t.Fatal(err)
	}
	if derr != nil || info.Status != database.ClientDeactivated || info.Documents[docInfo.ID].Status != database.DocumentDetached {
		t.Fatalf("F20: deactivating a client that attached a document but stored no change in it: error %v; the client is %q and the document %q for it",
			derr, info.Status, info.Documents[docInfo.ID].Status)
	}
}
