package document_test

import (
	"testing"

	"github.com/yorkie-team/yorkie/pkg/document"
	"github.com/yorkie-team/yorkie/pkg/document/change"
	"github.com/yorkie-team/yorkie/pkg/document/json"
	"github.com/yorkie-team/yorkie/pkg/document/presence"
	"github.com/yorkie-team/yorkie/pkg/document/time"
)

// Replay of finding F21 (C08): Document.applyChanges executes every remote change on the clone first and on the document
// second, and returns at the first error - without discarding the clone. A change whose second operation cannot be applied
// (here: its parent object is unknown to this replica because the change that created it is missing from the pack) has
// already executed its first operation on the clone: the pack is refused with an error, the document is untouched, but
// Root() - the copy handed to every later callback - shows the phantom key for good.
// Obligation: (*pkg/document.Document).applyChanges/ensures#@failed_remote_change_discards_the_clone
func TestVerifReplayF21(t *testing.T) {
	a1, _ := time.ActorIDFromHex("000000000000000000000001")
	a2, _ := time.ActorIDFromHex("000000000000000000000002")
	d1 := document.New("k")
	d1.SetActor(a1)
	d2 := document.New("k")
	d2.SetActor(a2)
	_ = d2.Update(func(r *json.Object, p *presence.Presence) error { r.SetNewObject("o"); return nil })
	_ = d2.Update(func(r *json.Object, p *presence.Presence) error {
		r.SetString("x", "1")
		r.GetObject("o").SetString("k", "v")
		return nil
	})
	cs := d2.CreateChangePack().Changes
	second := cs[1]
	second.SetServerSeq(1)
	_ = d1.Update(func(r *json.Object, p *presence.Presence) error { r.SetString("a", "1"); return nil })
	// the pack lacks the change that created "o": its second operation cannot be applied here
	err := d1.ApplyChangePack(change.NewPack("k", change.NewCheckpoint(1, 0), []*change.Change{second}, nil, nil))
	if err == nil {
		t.Skip("the pack was applied: the scenario does not reach the failing branch on this tree")
	}
	if d1.Root().Marshal() != d1.Marshal() {
		t.Fatalf("F21: after the refused pack (%v) the copy handed to callbacks shows %s, the document shows %s", err, d1.Root().Marshal(), d1.Marshal())
	}
}
