package document_test

import (
	"testing"

	"github.com/yorkie-team/yorkie/pkg/document"
	"github.com/yorkie-team/yorkie/pkg/document/change"
	"github.com/yorkie-team/yorkie/pkg/document/json"
	"github.com/yorkie-team/yorkie/pkg/document/presence"
	"github.com/yorkie-team/yorkie/pkg/document/time"
)

// Replay of finding F22 (C08): the undo/redo path executes the reverse change on the clone first and returns at the first
// error without discarding the clone - F21 on the undo path. The undo of an update that wrote into an object and then set
// a root key runs its reverse operations in reverse order: the root key is restored on the clone, then the operation on the
// object fails because a peer removed the object and garbage collection has purged it. Undo reports the error, the
// document is untouched, but Root() keeps showing the half-undone state.
// Obligation: (*pkg/document.Document).executeUndoRedo/ensures#@failed_undo_discards_the_clone
func TestVerifReplayF22(t *testing.T) {
	a1, _ := time.ActorIDFromHex("000000000000000000000001")
	a2, _ := time.ActorIDFromHex("000000000000000000000002")
	d1 := document.New("k")
	d1.SetActor(a1)
	d2 := document.New("k")
	d2.SetActor(a2)
	up := func(d *document.Document, f func(r *json.Object)) {
		if err := d.Update(func(r *json.Object, p *presence.Presence) error { f(r); return nil }); err != nil {
			t.Fatal(err)
		}
	}
	// d1 creates the object; d2 receives it
	up(d1, func(r *json.Object) { r.SetNewObject("o"); r.SetString("x", "0") })
	p1 := d1.CreateChangePack()
	for i, c := range p1.Changes {
		c.SetServerSeq(int64(i + 1))
	}
	if err := d2.ApplyChangePack(change.NewPack("k", change.NewCheckpoint(1, 0), p1.Changes, nil, nil)); err != nil {
		t.Fatal(err)
	}
	// d1: one update that writes into the object first and sets a root key second (this is what Undo will reverse)
	up(d1, func(r *json.Object) { r.GetObject("o").SetString("k", "v"); r.SetString("x", "1") })
	// d2 removes the object; d1 receives the removal and collects it
	up(d2, func(r *json.Object) { r.Delete("o") })
	p2 := d2.CreateChangePack()
	for i, c := range p2.Changes {
		c.SetServerSeq(int64(i + 2))
	}
	if err := d1.ApplyChangePack(change.NewPack("k", change.NewCheckpoint(2, 0), p2.Changes, nil, nil)); err != nil {
		t.Fatal(err)
	}
	vv := time.NewVersionVector()
	vv.Set(a1, time.MaxLamport)
	vv.Set(a2, time.MaxLamport)
	d1.GarbageCollect(vv) // every attached client has seen the removal
	err := d1.Undo()
	if err == nil {
		t.Skip("the undo went through: the scenario does not reach the failing branch on this tree")
	}
	if d1.Root().Marshal() != d1.Marshal() {
		t.Fatalf("F22: after the refused undo (%v) the copy handed to callbacks shows %s, the document shows %s", err, d1.Root().Marshal(), d1.Marshal())
	}
}
