package converter_test

import (
	"testing"

	"google.golang.org/protobuf/proto"

	"github.com/yorkie-team/yorkie/api/converter"
	api "github.com/yorkie-team/yorkie/api/yorkie/v1"
	"github.com/yorkie-team/yorkie/pkg/document"
	"github.com/yorkie-team/yorkie/pkg/document/crdt"
	"github.com/yorkie-team/yorkie/pkg/document/json"
	"github.com/yorkie-team/yorkie/pkg/document/presence"
	"github.com/yorkie-team/yorkie/pkg/document/time"
)

// Replay of finding F23 (C09): the snapshot decoder of Text nodes accepts an attribute whose update ticket is absent (an
// absent ticket decodes to nil without error) and stores the nil ticket in the attribute table; nothing complains until
// the next style operation on that text compares its ticket with the stored one and dereferences nil - a crash on bytes
// that were "accepted". The decoder has to reject the snapshot.
// Obligation: api/converter.fromTextNode/assert-at (attribute ticket present)
func TestVerifReplayF23(t *testing.T) {
	d := document.New("k")
	up := func(f func(r *json.Object)) {
		if err := d.Update(func(r *json.Object, p *presence.Presence) error { f(r); return nil }); err != nil {
			t.Fatal(err)
		}
	}
	up(func(r *json.Object) { r.SetNewText("t").Edit(0, 0, "abc") })
	up(func(r *json.Object) { r.GetText("t").Style(0, 3, map[string]string{"b": "1"}) })
	bytes, err := converter.SnapshotToBytes(d.RootObject(), nil)
	if err != nil {
		t.Fatal(err)
	}
	// drop the update ticket of every text attribute (a truncated / hostile snapshot)
	pb := &api.Snapshot{}
	if err := proto.Unmarshal(bytes, pb); err != nil {
		t.Fatal(err)
	}
	stripped := 0
	for _, n := range pb.Root.GetJsonObject().Nodes {
		if txt := n.Element.GetText(); txt != nil {
			for _, tn := range txt.Nodes {
				for _, a := range tn.Attributes {
					a.UpdatedAt = nil
					stripped++
				}
			}
		}
	}
	if stripped == 0 {
		t.Fatal("no attribute found to strip")
	}
	bytes, _ = proto.Marshal(pb)
	obj, _, err := converter.BytesToSnapshot(bytes)
	if err != nil {
		return // rejected: what the property asks for
	}
	defer func() {
		if r := recover(); r != nil {
			t.Fatalf("F23: the snapshot was accepted and the next style operation crashed: %v", r)
		}
	}()
	text := obj.Get("t").(*crdt.Text)
	from, to, err := text.CreateRange(0, 3)
	if err != nil {
		t.Fatal(err)
	}
	a1, _ := time.ActorIDFromHex("000000000000000000000009")
	_, _, _, _ = text.Style(from, to, map[string]string{"b": "2"}, time.NewTicket(100, 0, a1), nil)
}
