package document_test

import (
	"fmt"
	"testing"

	"github.com/yorkie-team/yorkie/api/converter"
	api "github.com/yorkie-team/yorkie/api/yorkie/v1"
	"github.com/yorkie-team/yorkie/pkg/document"
)

// Replay of finding F24 (C09): the EXECUTION ticket of an operation is decoded with fromTimeTicket, so an operation that
// comes without one decodes without error (nil ticket) - F2's repair made the parent / target tickets mandatory, not this
// one. Every executor hands the execution ticket to the CRDT, which compares it with stored tickets: a pushed change whose
// operation lacks executed_at crashes whoever applies it (on the server: the snapshot build).
// Obligation: api/converter.fromSet/ensures#@executed_ticket_present and its siblings
func TestVerifReplayF24(t *testing.T) {
	actor := []byte{0, 0, 0, 0, 0, 0, 0, 0, 0, 0, 0, 1}
	tk := &api.TimeTicket{Lamport: 1, Delimiter: 1, ActorId: actor}
	tk2 := &api.TimeTicket{Lamport: 2, Delimiter: 1, ActorId: actor}
	root := &api.TimeTicket{Lamport: 0, Delimiter: 0, ActorId: make([]byte, 12)}
	val := func(tt *api.TimeTicket) *api.JSONElementSimple {
		return &api.JSONElementSimple{Type: api.ValueType_VALUE_TYPE_INTEGER, Value: []byte{1, 0, 0, 0}, CreatedAt: tt}
	}
	var crashed []string
	apply := func(name string, ops ...*api.Operation) {
		defer func() {
			if r := recover(); r != nil {
				crashed = append(crashed, fmt.Sprint(name, ": ", r))
			}
		}()
		pb := &api.ChangePack{
			DocumentKey: "k",
			Checkpoint:  &api.Checkpoint{ServerSeq: 1, ClientSeq: 1},
			Changes: []*api.Change{{
				Id:         &api.ChangeID{ClientSeq: 1, ServerSeq: 1, Lamport: 2, ActorId: actor},
				Operations: ops,
			}},
		}
		pack, err := converter.FromChangePack(pb)
		if err != nil {
			return // rejected by the decoder: what the property asks for
		}
		d := document.NewInternalDocument("k")
		_ = d.ApplyChangePack(pack, false)
	}
	// a well-formed set first (so that the key exists), then a second set of the same key without an execution ticket:
	// the attribute table of the object compares the two execution tickets
	apply("set without executed_at",
		&api.Operation{Body: &api.Operation_Set_{Set: &api.Operation_Set{ParentCreatedAt: root, Key: "a", Value: val(tk), ExecutedAt: tk}}},
		&api.Operation{Body: &api.Operation_Set_{Set: &api.Operation_Set{ParentCreatedAt: root, Key: "a", Value: val(tk2)}}})
	if len(crashed) > 0 {
		t.Fatalf("F24: an accepted pack crashed the applier: %v", crashed)
	}
}
