#!/bin/sh
# run.sh <scenario> : replays a recorded failing scenario against /repo's current working tree.
# The test file is injected with `go test -overlay` (nothing is written into /repo). Exit 0 = scenario passes
# (the defect is not present), exit 1 = the defect reproduces.
set -e
here=$(cd "$(dirname "$0")" && pwd)
sc=$1
dir=$here/$sc
[ -d "$dir" ] || { echo "no scenario $sc"; exit 2; }
pkg=$(cat "$dir/package")
work=$(mktemp -d /verif/.work/replay.XXXXXX)
trap 'rm -rf "$work"' EXIT
printf '{"Replace": {' > "$work/ov.json"
first=1
for f in "$dir"/*_test.go; do
  [ $first = 1 ] || printf ',' >> "$work/ov.json"
  first=0
  printf '"/repo/%s/zz_verif_%s": "%s"' "$pkg" "$(basename "$f")" "$f" >> "$work/ov.json"
done
printf '}}\n' >> "$work/ov.json"
cd /repo
export GOPROXY=off GOFLAGS=-mod=mod
set +e
go test -overlay "$work/ov.json" -vet=off -count=1 -timeout 120s -run "TestVerifReplay$sc\$" "./$pkg/" > "$work/out.txt" 2>&1
rc=$?
grep -v '^WARNING' "$work/out.txt"
[ $rc = 0 ] && exit 0
exit 1
