#!/bin/sh
# Build govc offline with the go1.25.0 toolchain from the module cache.
set -e
TC=/root/go/pkg/mod/golang.org/toolchain@v0.0.1-go1.25.0.linux-amd64/bin
[ -d "$TC" ] && export PATH="$TC:$PATH" GOTOOLCHAIN=local
export GOFLAGS=-mod=mod GOPROXY=off
mkdir -p /verif/bin
cd /verif/govc && go build -o /verif/bin/govc .
